#!/usr/bin/env python3
# Regenerates MANIFEST.json from props/*/spec.json and props/*/manifest.json (level text), plus not_applicable.json.
import json, os, glob
root = os.path.dirname(os.path.abspath(__file__))
props = [json.loads(l) for l in open(os.path.join(root, 'properties.jsonl'))]
na = json.load(open(os.path.join(root, 'not_applicable.json')))
checks = []
served = []
for p in props:
    pid = p['id']
    d = os.path.join(root, 'props', pid)
    if not os.path.exists(os.path.join(d, 'spec.json')):
        continue
    spec = json.load(open(os.path.join(d, 'spec.json')))
    meta = {}
    if os.path.exists(os.path.join(d, 'manifest.json')):
        meta = json.load(open(os.path.join(d, 'manifest.json')))
    served.append(pid)
    units = [u for u in spec.get('units', [])]
    nn = [u['name'] for u in units if u.get('no_native')]
    if not nn:
        replay = 'every counterexample and every reachability witness is replayed natively against the real build (go test -overlay)'
    elif len(nn) == len(units):
        replay = 'counterexamples are engine-level: the units replace functions by stubs and have no native replay'
    else:
        replay = 'counterexamples and witnesses are replayed natively except for the stub-using units ' + ', '.join(nn)
    checks.append({
        'property_id': pid,
        'quick_cmd': './check %s --tier quick' % pid,
        'thorough_cmd': './check %s --tier thorough' % pid,
        'evidence_file': '/verif/evidence/%s.json' % pid,
        'replay_cmd_template': './check %s --replay {path}' % pid,
        'engine': 'gosmt',
        'level_claimed': {
            'category': 'model_checking',
            'text': meta.get('text', 'Bounded symbolic model checking of the real code: ' + '; '.join(spec.get('bounds', []))),
            'design_ref': meta.get('design_ref', 'DESIGN.md Part A, section A.4, entry ' + pid),
        },
        'level_note': meta.get('note', 'Assumes: ' + '; '.join(spec.get('assumptions', []) or ['-']) + '. Trusted: ' + '; '.join(spec.get('trusted_base', [])) + '. Outside the claim: ' + '; '.join(spec.get('outside_claim', []) or ['-'])),
        'technique': meta.get('technique', 'solver-based bounded checking: go/ssa symbolic execution of the real functions (encoding regenerated from /repo on every run) -> SMT-LIB bit-vector queries decided by a z3/cvc5 portfolio; ' + replay),
    })
nas = [x for x in na if x['property_id'] not in served]
m = {
    'version': 1,
    'setup_cmd': './setup.sh',
    'hooks': {
        'guard': 'verif',
        'enable': 'none needed: harnesses are injected at load time with go/packages Overlay (engine) and go test -overlay (native replay); /repo is never modified',
        'baseline_off_cmd': json.load(open('/root/.vp/BASELINE.json'))['cmd'],
        'source_commits': [],
        'add_only': True,
    },
    'engines': [{'name': 'gosmt', 'path': '/verif/engine', 'serves_properties': served,
                 'kind_free_text': 'own go/ssa symbolic executor with join-point state merging; obligations discharged by z3 (cvc5, z3-new cross-checks in thorough tier); native replay via go test -overlay'}],
    'checks': checks,
    'not_applicable': nas,
    'notes': 'See DESIGN.md. known_findings.json lists recorded/fixed defects.',
}
json.dump(m, open(os.path.join(root, 'MANIFEST.json'), 'w'), indent=1)
print('checks:', len(checks), 'not_applicable:', len(nas))
