#!/bin/bash
# Runs every registered thorough command once (used to confirm the thorough bounds run clean on the unchanged tree).
cd "$(dirname "$0")"
ids=$(python3 -c "
import json; m=json.load(open('MANIFEST.json')); print(' '.join(c['property_id'] for c in m['checks']))")
for id in ${ONLY:-$ids}; do
  s=$(date +%s)
  out=$(timeout ${PER:-2700} ./check $id --tier thorough ${JOBS:+-j $JOBS} 2>&1 | grep -E "^OK|^INCON|^VIOL|^KNOWN|inconclusive:" | cut -c1-200 | sort | uniq -c | tr '\n' ';')
  e=$(date +%s)
  echo "$id $((e-s))s $out"
done
echo ALLDONE
