package main

// A small model of package reflect, enough for code that inspects the dynamic type of a configuration value:
// reflect.TypeOf(x).Kind(), reflect.ValueOf(x).Kind()/Len()/Index(i)/Interface()/String()/IsNil().
// Everything else in reflect stays unsupported (poison).

import (
	"go/types"

	"golang.org/x/tools/go/ssa"
)

// ReflT is the value behind a reflect.Type interface produced by the model.
type ReflT struct{ t types.Type }

// ReflV is a reflect.Value produced by the model: it wraps the interface value it was made from.
type ReflV struct{ iv IfaceV }

func reflectKind(t types.Type) (uint64, bool) {
	if t == nil {
		return 0, true // Invalid
	}
	switch u := t.Underlying().(type) {
	case *types.Basic:
		switch u.Kind() {
		case types.Bool:
			return 1, true
		case types.Int:
			return 2, true
		case types.Int8:
			return 3, true
		case types.Int16:
			return 4, true
		case types.Int32:
			return 5, true
		case types.Int64:
			return 6, true
		case types.Uint:
			return 7, true
		case types.Uint8:
			return 8, true
		case types.Uint16:
			return 9, true
		case types.Uint32:
			return 10, true
		case types.Uint64:
			return 11, true
		case types.Uintptr:
			return 12, true
		case types.Float32:
			return 13, true
		case types.Float64:
			return 14, true
		case types.String:
			return 24, true
		case types.UnsafePointer:
			return 26, true
		}
	case *types.Array:
		return 17, true
	case *types.Chan:
		return 18, true
	case *types.Signature:
		return 19, true
	case *types.Interface:
		return 20, true
	case *types.Map:
		return 21, true
	case *types.Pointer:
		return 22, true
	case *types.Slice:
		return 23, true
	case *types.Struct:
		return 25, true
	}
	return 0, false
}

// reflectModel handles calls into package reflect. ok=false: not modelled.
func (e *Engine) reflectModel(st *State, callee *ssa.Function, name string, args []Val) (Val, bool) {
	b := e.b
	recv := callee.Signature.Recv()
	if recv == nil {
		switch name {
		case "TypeOf":
			if iv, ok := args[0].(IfaceV); ok {
				if iv.dyn == nil {
					return IfaceV{}, true // TypeOf(nil) == nil
				}
				return IfaceV{dyn: types.Typ[types.UnsafePointer], v: ReflT{iv.dyn}}, true
			}
		case "ValueOf":
			if iv, ok := args[0].(IfaceV); ok {
				return ReflV{iv}, true
			}
		}
		return nil, false
	}
	rv, ok := args[0].(ReflV)
	if !ok {
		return nil, false
	}
	switch name {
	case "Kind":
		if k, ok := reflectKind(rv.iv.dyn); ok {
			return Scalar{b.BV(64, k)}, true
		}
	case "IsValid":
		if rv.iv.dyn == nil {
			return Scalar{b.False()}, true
		}
		return Scalar{b.True()}, true
	case "Interface":
		return rv.iv, true
	case "String":
		if bt, ok := rv.iv.dyn.Underlying().(*types.Basic); ok && bt.Info()&types.IsString != 0 {
			return rv.iv.v, true
		}
	case "Len":
		switch v := rv.iv.v.(type) {
		case SliceV:
			return Scalar{v.len}, true
		}
	case "Index":
		sv, ok := rv.iv.v.(SliceV)
		it, ok2 := scalarOf(args[1])
		if ok && ok2 {
			var elemT types.Type
			switch u := rv.iv.dyn.Underlying().(type) {
			case *types.Slice:
				elemT = u.Elem()
			case *types.Basic: // string
				elemT = types.Typ[types.Uint8]
			}
			if elemT == nil {
				return nil, false
			}
			// out-of-range index panics in reflect: make it an obligation
			e.guard(st, b.Ult(it, sv.len), "reflect: slice index out of range", callee.Pos())
			el := e.elemAt2(st, sv, it)
			if _, isIface := elemT.Underlying().(*types.Interface); isIface {
				if iv, ok := el.(IfaceV); ok {
					return ReflV{iv}, true // Index on []any yields an interface-kind Value; Interface() returns the element
				}
				return nil, false
			}
			return ReflV{IfaceV{dyn: elemT, v: el}}, true
		}
	}
	return nil, false
}
