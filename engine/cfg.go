package main

import (
	"sort"

	"golang.org/x/tools/go/ssa"
)

type fnInfo struct {
	topo    map[*ssa.BasicBlock]int
	loopsOf map[*ssa.BasicBlock][]int // enclosing loop headers (block index), outermost first
	isBack  map[[2]int]bool
	nret    int
	ninstr  int
}

func (e *Engine) finfo(fn *ssa.Function) *fnInfo {
	if fi, ok := e.info[fn]; ok {
		return fi
	}
	fi := &fnInfo{topo: map[*ssa.BasicBlock]int{}, loopsOf: map[*ssa.BasicBlock][]int{}, isBack: map[[2]int]bool{}}
	color := map[*ssa.BasicBlock]int{}
	var post []*ssa.BasicBlock
	// iterative DFS
	type fr struct {
		b *ssa.BasicBlock
		i int
	}
	if len(fn.Blocks) > 0 {
		stack := []fr{{fn.Blocks[0], 0}}
		color[fn.Blocks[0]] = 1
		for len(stack) > 0 {
			top := &stack[len(stack)-1]
			if top.i < len(top.b.Succs) {
				s := top.b.Succs[top.i]
				top.i++
				if color[s] == 1 {
					fi.isBack[[2]int{top.b.Index, s.Index}] = true
				} else if color[s] == 0 {
					color[s] = 1
					stack = append(stack, fr{s, 0})
				}
				continue
			}
			color[top.b] = 2
			post = append(post, top.b)
			stack = stack[:len(stack)-1]
		}
	}
	for i := range post {
		fi.topo[post[len(post)-1-i]] = i
	}
	loopBody := map[int]map[int]bool{}
	for be := range fi.isBack {
		tail, head := fn.Blocks[be[0]], fn.Blocks[be[1]]
		body := loopBody[head.Index]
		if body == nil {
			body = map[int]bool{head.Index: true}
			loopBody[head.Index] = body
		}
		stack := []*ssa.BasicBlock{tail}
		for len(stack) > 0 {
			b := stack[len(stack)-1]
			stack = stack[:len(stack)-1]
			if body[b.Index] {
				continue
			}
			body[b.Index] = true
			stack = append(stack, b.Preds...)
		}
	}
	for _, b := range fn.Blocks {
		var hs []int
		for h, body := range loopBody {
			if body[b.Index] {
				hs = append(hs, h)
			}
		}
		sort.Slice(hs, func(i, j int) bool {
			li, lj := len(loopBody[hs[i]]), len(loopBody[hs[j]])
			if li != lj {
				return li > lj
			}
			return hs[i] < hs[j]
		})
		fi.loopsOf[b] = hs
		fi.ninstr += len(b.Instrs)
		for _, in := range b.Instrs {
			if _, ok := in.(*ssa.Return); ok {
				fi.nret++
			}
		}
	}
	e.info[fn] = fi
	return fi
}

// timeOf computes the virtual time of a state (see DESIGN Appendix C.4).
func (e *Engine) timeOf(st *State) []int {
	t := make([]int, 0, 8*len(st.frames))
	for _, f := range st.frames {
		fi := e.finfo(f.fn)
		t = append(t, f.fnID)
		for _, h := range fi.loopsOf[f.blk] {
			t = append(t, fi.topo[f.fn.Blocks[h]], f.iters[h])
		}
		t = append(t, fi.topo[f.blk], f.ip, f.sub)
	}
	return t
}

func cmpTime(a, b []int) int {
	for i := 0; i < len(a) && i < len(b); i++ {
		if a[i] != b[i] {
			if a[i] < b[i] {
				return -1
			}
			return 1
		}
	}
	return len(a) - len(b)
}
