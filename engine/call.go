package main

import (
	"fmt"
	"go/token"
	"os"
	"time"
	"go/types"
	"strings"

	"golang.org/x/tools/go/ssa"
)

func (e *Engine) lookupMethod(dyn types.Type, m *types.Func) *ssa.Function {
	ms := e.prog.MethodSets.MethodSet(dyn)
	sel := ms.Lookup(m.Pkg(), m.Name())
	if sel == nil {
		return nil
	}
	return e.prog.MethodValue(sel)
}

// call executes a call instruction (Call; Defer/Go are resolved elsewhere).
func (e *Engine) call(st *State, f *Frame, x ssa.Value, c *ssa.CallCommon, inDefer bool) (action, []*State) {
	var args []Val
	var fnv Val
	if c.IsInvoke() {
		if n, ok := c.Value.Type().(*types.Named); ok && n.Obj().Pkg() != nil {
			switch n.Obj().Pkg().Path() {
			case "github.com/rcrowley/go-metrics", "log/slog":
				// environment interfaces (metrics, logging): calls are no-ops
				e.noteStub(n.Obj().Pkg().Path() + " interface methods=noop")
				if x != nil {
					if sig, ok := c.Method.Type().(*types.Signature); ok {
						res := sig.Results()
						switch res.Len() {
						case 0:
						case 1:
							f.locals[x] = e.zero(res.At(0).Type())
						default:
							tv := make(TupleV, res.Len())
							for i := range tv {
								tv[i] = e.zero(res.At(i).Type())
							}
							f.locals[x] = tv
						}
					}
				}
				if inDefer {
					return actAgain, nil
				}
				return actNext, nil
			}
		}
		recv := e.get(st, f, c.Value)
		switch r := recv.(type) {
		case Union:
			return actAgain, e.splitOn(st, f, c.Value, r)
		case Poison:
			e.bindResult(f, x, c, r)
			return actNext, nil
		case IfaceV:
			if r.dyn == nil {
				e.guard(st, e.b.False(), "nil pointer dereference (method call on nil interface "+c.Method.Name()+")", c.Pos())
				return actDead, nil
			}
			if rt, ok := r.v.(ReflT); ok {
				// reflect.Type produced by the reflect model
				var res Val = Poison{"reflect.Type." + c.Method.Name()}
				if c.Method.Name() == "Kind" {
					if k, ok := reflectKind(rt.t); ok {
						res = Scalar{e.b.BV(64, k)}
					}
				}
				e.bindResult(f, x, c, res)
				if inDefer {
					return actAgain, nil
				}
				return actNext, nil
			}
			fn := e.lookupMethod(r.dyn, c.Method)
			if fn == nil {
				e.bindResult(f, x, c, Poison{"method not found: " + r.dyn.String() + "." + c.Method.Name()})
				return actNext, nil
			}
			fnv = FuncV{fn: fn}
			args = append(args, r.v)
		default:
			e.bindResult(f, x, c, Poison{fmt.Sprintf("invoke on %T", recv)})
			return actNext, nil
		}
	} else {
		fnv = e.get(st, f, c.Value)
		if u, ok := fnv.(Union); ok {
			return actAgain, e.splitOn(st, f, c.Value, u)
		}
	}
	for _, a := range c.Args {
		args = append(args, e.get(st, f, a))
	}
	if bi, ok := fnv.(*ssa.Builtin); ok {
		switch bi.Name() {
		case "append", "copy", "delete", "clear":
			for i, a := range args {
				if u, ok := a.(Union); ok {
					if _, isConst := c.Args[i].(*ssa.Const); !isConst {
						return actAgain, e.splitOn(st, f, c.Args[i], u)
					}
				}
			}
		}
	}
	return e.invokeValue(st, f, x, fnv, args, c.Pos(), inDefer)
}

func (e *Engine) bindResult(f *Frame, x ssa.Value, c *ssa.CallCommon, v Val) {
	if x == nil {
		return
	}
	if p, ok := v.(Poison); ok {
		// shape the poison like the result type so Extract works
		if tup, ok := x.Type().(*types.Tuple); ok {
			tv := make(TupleV, tup.Len())
			for i := range tv {
				tv[i] = p
			}
			f.locals[x] = tv
			return
		}
	}
	f.locals[x] = v
}

// invokeValue calls fnv with args. x (may be nil) receives the result.
func (e *Engine) invokeValue(st *State, f *Frame, x ssa.Value, fnv Val, args []Val, pos token.Pos, inDefer bool) (action, []*State) {
	switch fv := fnv.(type) {
	case *ssa.Builtin:
		r, act := e.builtin(st, f, fv, args, x, pos)
		if act == actDead {
			return actDead, nil
		}
		if x != nil && r != nil {
			f.locals[x] = r
		}
		if inDefer {
			return actAgain, nil
		}
		return actNext, nil
	case Poison:
		if x != nil {
			e.bindResult(f, x, nil, fv)
		}
		if inDefer {
			return actAgain, nil
		}
		return actNext, nil
	case FuncV:
		if fv.fn == nil {
			e.guard(st, e.b.False(), "call of nil func", pos)
			return actDead, nil
		}
		return e.callFunc(st, f, x, fv, args, pos, inDefer)
	}
	e.poisonPath(st, fmt.Sprintf("call of %T", fnv))
	return actDead, nil
}

func (e *Engine) callFunc(st *State, f *Frame, x ssa.Value, fv FuncV, args []Val, pos token.Pos, inDefer bool) (action, []*State) {
	callee := fv.fn
	full := callee.String()
	if callee.Synthetic != "" && callee.Origin() != nil {
		// instantiated generic: match intrinsics on the origin's name too
	}
	if e.inInit && callee.Name() == "init" && callee.Pkg != e.initPkg && callee.Signature.Recv() == nil && len(callee.Params) == 0 {
		return actNext, nil // imported packages are initialised separately
	}
	// 1. harness API and intrinsics
	if r, handled, act, sp := e.intrinsic(st, f, x, callee, full, args, pos); handled {
		if act == actDead {
			return actDead, sp
		}
		if act == actAgain {
			return actAgain, sp
		}
		if act == actMoved {
			return actMoved, sp // a replacement function was entered
		}
		if x != nil && r != nil {
			e.bindResult(f, x, nil, r)
		}
		if inDefer {
			return actAgain, sp
		}
		return actNext, sp
	}
	if callee.Blocks == nil {
		r := Poison{"body-less function without intercept: " + full}
		if x != nil {
			e.bindResult(f, x, nil, r)
		}
		e.noteStub("POISON:" + full)
		if inDefer {
			return actAgain, nil
		}
		return actNext, nil
	}
	// recursion: a call to a function already on the stack is only followed if the path is feasible
	if !e.inInit {
		rec := 0
		for _, fr := range st.frames {
			if fr.fn == callee {
				rec++
			}
		}
		if rec >= 1 {
			pcT := e.conj(st.pc)
			if pcT.IsFalse() {
				st.frames = nil
				return actDead, nil
			}
			if !pcT.IsTrue() && rec >= 2 {
				s2 := NewSolver(8000)
				q := s2.Check(e.b, []*Term{pcT}, "recursion-feasibility")
				e.feasQueries++
				if os.Getenv("GOSMT_PROGRESS") != "" {
					fmt.Fprintf(os.Stderr, "recursion feasibility %s depth=%d: %s %.1fs nodes=%d\n", callee.Name(), rec, q.Status, q.Secs, q.Nodes)
				}
				e.solver.Time += time.Duration(q.Secs * float64(time.Second))
				if q.Status == "unsat" {
					st.frames = nil
					return actDead, nil
				}
			}
			if rec >= e.recursionBound() {
				e.newObl(oblUnwind, st, nil, fmt.Sprintf("recursion bound %d exceeded", e.recursionBound()), callee.String())
				st.frames = nil
				return actDead, nil
			}
		}
	}
	if len(st.frames) > 200 {
		e.poisonPath(st, "call depth > 200 (recursion?) at "+full)
		return actDead, nil
	}
	if !e.fnSeen[callee] {
		e.fnSeen[callee] = true
	}
	nf := &Frame{fn: callee, fnID: e.fnID(callee), locals: make(map[ssa.Value]Val, 16), iters: map[int]int{}, call: x, inDefer: inDefer}
	if len(args) != len(callee.Params) {
		e.poisonPath(st, fmt.Sprintf("arity mismatch calling %s: %d args for %d params", full, len(args), len(callee.Params)))
		return actDead, nil
	}
	for i, p := range callee.Params {
		nf.locals[p] = args[i]
	}
	for i, fvv := range callee.FreeVars {
		if i < len(fv.bind) {
			nf.locals[fvv] = fv.bind[i]
		}
	}
	st.frames = append(st.frames, nf)
	e.enter(st, callee.Blocks[0])
	st.atJoin = false
	return actMoved, nil
}

func (e *Engine) noteStub(name string) {
	if e.stubsUsed == nil {
		e.stubsUsed = map[string]int{}
	}
	e.stubsUsed[name]++
}

// ---------- builtins ----------
func (e *Engine) builtin(st *State, f *Frame, bi *ssa.Builtin, args []Val, x ssa.Value, pos token.Pos) (Val, action) {
	b := e.b
	name := bi.Name()
	if p, ok := e.poisonOperand(args...); ok && name != "print" && name != "println" {
		if name == "append" || name == "copy" || name == "delete" || name == "clear" {
			e.poisonPath(st, name+" with poisoned operand: "+p.why)
			return nil, actDead
		}
		return p, actNext
	}
	switch name {
	case "len", "cap":
		return e.lenOf(st, args[0], name == "cap"), actNext
	case "append":
		return e.doAppend(st, f, args, x, pos)
	case "copy":
		dst, ok1 := args[0].(SliceV)
		src, ok2 := args[1].(SliceV)
		if !ok1 || !ok2 {
			e.poisonPath(st, fmt.Sprintf("copy(%T,%T)", args[0], args[1]))
			return nil, actDead
		}
		n := b.Ite(b.Ult(dst.len, src.len), dst.len, src.len)
		e.copyElems(st, dst, src, n)
		return Scalar{n}, actNext
	case "delete":
		if u, ok := args[0].(Union); ok {
			_ = u
			e.poisonPath(st, "delete on union map")
			return nil, actDead
		}
		m := args[0].(MapRef)
		if m.obj == 0 {
			return nil, actNext
		}
		mo := e.objVal(st, m.obj).(MapObj)
		nm := MapObj{kt: mo.kt, vt: mo.vt, entries: make([]MapEntry, len(mo.entries))}
		for i, en := range mo.entries {
			e.curPoison = ""
			eq := e.eqVal(en.key, args[1])
			if eq == nil {
				e.poisonPath(st, "map delete: "+e.curPoison)
				return nil, actDead
			}
			nm.entries[i] = MapEntry{b.And(en.present, b.Not(eq)), en.key, en.val}
		}
		e.setObj(st, m.obj, nm)
		return nil, actNext
	case "clear":
		switch v := args[0].(type) {
		case MapRef:
			if v.obj != 0 {
				mo := e.objVal(st, v.obj).(MapObj)
				e.setObj(st, v.obj, MapObj{kt: mo.kt, vt: mo.vt})
			}
		case SliceV:
			if v.obj == 0 {
				return nil, actNext
			}
			n := e.maxLen(v)
			var et types.Type
			if bi.Type() != nil {
				if sig, ok := bi.Type().(*types.Signature); ok && sig.Params().Len() > 0 {
					if sl, ok := sig.Params().At(0).Type().Underlying().(*types.Slice); ok {
						et = sl.Elem()
					}
				}
			}
			if et == nil {
				e.poisonPath(st, "clear: unknown element type")
				return nil, actDead
			}
			z := e.zero(et)
			for i := 0; i < n; i++ {
				it := b.BV(64, uint64(i))
				p := e.elemPtr(v, it)
				g := b.Ult(it, v.len)
				if g.IsFalse() {
					break
				}
				nv := z
				if !g.IsTrue() {
					nv = e.mergeVal(g, z, e.getPath(e.objVal(st, v.obj), p.path))
				}
				e.setObj(st, v.obj, e.setPath(e.objVal(st, v.obj), p.path, nv))
			}
		default:
			e.poisonPath(st, fmt.Sprintf("clear(%T)", args[0]))
			return nil, actDead
		}
		return nil, actNext
	case "min", "max":
		t0, ok := scalarOf(args[0])
		if !ok {
			return Poison{"min/max non-scalar"}, actNext
		}
		signed := true
		if sig, ok := bi.Type().(*types.Signature); ok && sig.Params().Len() > 0 {
			signed = isSigned(sig.Params().At(0).Type())
		}
		r := t0
		for _, a := range args[1:] {
			t, ok := scalarOf(a)
			if !ok {
				return Poison{"min/max non-scalar"}, actNext
			}
			var lt *Term // t < r
			if name == "max" {
				if signed {
					lt = b.Slt(r, t)
				} else {
					lt = b.Ult(r, t)
				}
			} else if signed {
				lt = b.Slt(t, r)
			} else {
				lt = b.Ult(t, r)
			}
			r = b.Ite(lt, t, r)
		}
		return Scalar{r}, actNext
	case "SliceData", "StringData":
		sv, ok := args[0].(SliceV)
		if !ok {
			return Poison{"unsafe." + name}, actNext
		}
		if sv.obj == 0 {
			return Ptr{}, actNext
		}
		return e.elemPtr(sv, b.BV(64, 0)), actNext
	case "Slice", "String": // unsafe.Slice(ptr, len) / unsafe.String(ptr, len)
		lt, ok := scalarOf(args[1])
		if !ok {
			return Poison{"unsafe.Slice length"}, actNext
		}
		var lsigned bool
		if sig, ok := bi.Type().(*types.Signature); ok && sig.Params().Len() > 1 {
			lsigned = isSigned(sig.Params().At(1).Type())
		}
		ln := b.Resize(lt, 64, lsigned)
		p, ok := args[0].(Ptr)
		if !ok {
			return Poison{fmt.Sprintf("unsafe.Slice of %T", args[0])}, actNext
		}
		if p.obj == 0 {
			e.guard(st, b.Eq(ln, b.BV(64, 0)), "unsafe.Slice: ptr is nil and len is not zero", pos)
			return e.nilSlice(name == "String"), actNext
		}
		if len(p.path) == 0 || p.path[len(p.path)-1].field != -1 {
			return Poison{"unsafe.Slice of a non-element pointer"}, actNext
		}
		basePath := p.path[:len(p.path)-1]
		av, ok := e.getPath(e.objVal(st, p.obj), basePath).(ArrayV)
		if !ok {
			return Poison{"unsafe.Slice: no backing array"}, actNext
		}
		off := p.path[len(p.path)-1].idx
		n := len(av.e)
		e.guard(st, b.Sle(b.BV(64, 0), ln), "unsafe.Slice: len out of range", pos)
		// the slice must stay inside the object it points into (anything else reads foreign memory)
		e.guard(st, b.And(b.Ule(ln, b.BV(64, uint64(n))), b.Ule(off, b.Sub(b.BV(64, uint64(n)), ln))), "unsafe.Slice extends beyond the underlying buffer", pos)
		return SliceV{obj: p.obj, base: basePath, n: n, off: off, len: ln, cap: ln, str: name == "String"}, actNext
	case "print", "println", "close":
		return nil, actNext
	case "recover":
		return IfaceV{}, actNext
	case "ssa:wrapnilchk":
		if p, ok := args[0].(Ptr); ok && p.obj == 0 {
			e.guard(st, b.False(), "nil pointer dereference (wrapnilchk)", pos)
			return nil, actDead
		}
		return args[0], actNext
	}
	return Poison{"builtin " + name}, actNext
}

func (e *Engine) lenOf(st *State, a Val, isCap bool) Val {
	b := e.b
	switch v := a.(type) {
	case SliceV:
		if isCap {
			return Scalar{v.cap}
		}
		return Scalar{v.len}
	case MapRef:
		if v.obj == 0 {
			return Scalar{b.BV(64, 0)}
		}
		mo := e.objVal(st, v.obj).(MapObj)
		n := b.BV(64, 0)
		for _, en := range mo.entries {
			n = b.Add(n, b.BoolToBV(en.present, 64))
		}
		return Scalar{n}
	case Ptr: // pointer to array
		return Poison{"len of array pointer"}
	case ArrayV:
		return Scalar{b.BV(64, uint64(len(v.e)))}
	case Union:
		return e.mapUnion(v, func(x Val) Val { return e.lenOf(st, x, isCap) })
	case ChanV:
		return Scalar{b.BV(64, 0)}
	case Poison:
		return v
	}
	return Poison{fmt.Sprintf("len of %T", a)}
}

// copyElems copies n (term) elements from src to dst (memmove semantics).
func (e *Engine) copyElems(st *State, dst, src SliceV, n *Term) {
	b := e.b
	if dst.obj == 0 || src.obj == 0 {
		return
	}
	maxn := e.maxLen(dst)
	if m := e.maxLen(src); m < maxn {
		maxn = m
	}
	if n.IsConst() && int(n.val) < maxn {
		maxn = int(n.val)
	}
	// snapshot source values first (handles overlap)
	vals := make([]Val, maxn)
	for i := 0; i < maxn; i++ {
		vals[i] = e.getPath(e.objVal(st, src.obj), e.elemPtr(src, b.BV(64, uint64(i))).path)
	}
	obj := e.objVal(st, dst.obj)
	for i := 0; i < maxn; i++ {
		it := b.BV(64, uint64(i))
		p := e.elemPtr(dst, it)
		g := b.Ult(it, n)
		nv := vals[i]
		if !g.IsTrue() {
			nv = e.mergeVal(g, vals[i], e.getPath(obj, p.path))
		}
		obj = e.setPath(obj, p.path, nv)
	}
	e.setObj(st, dst.obj, obj)
}

func (e *Engine) doAppend(st *State, f *Frame, args []Val, x ssa.Value, pos token.Pos) (Val, action) {
	b := e.b
	dst, ok1 := args[0].(SliceV)
	src, ok2 := args[1].(SliceV)
	if !ok1 || !ok2 {
		if u, ok := args[0].(Union); ok {
			// split on the destination
			call := f.blk.Instrs[f.ip].(*ssa.Call)
			_ = call
			_ = u
		}
		e.poisonPath(st, fmt.Sprintf("append(%T,%T)", args[0], args[1]))
		return nil, actDead
	}
	if src.len.IsConst() && src.len.val == 0 {
		return dst, actNext
	}
	newLen := b.Add(dst.len, src.len)
	fits := b.Ule(newLen, dst.cap)
	if dst.obj == 0 {
		fits = b.False()
	}
	if fits.IsTrue() {
		r := dst
		r.len = newLen
		tail := SliceV{obj: dst.obj, base: dst.base, n: dst.n, off: b.Add(dst.off, dst.len), len: src.len, cap: src.len}
		e.copyElems(st, tail, src, src.len)
		return r, actNext
	}
	if !fits.IsFalse() {
		// fork: in-place vs reallocation
		o := e.fork(st)
		e.addPC(o, b.Not(fits))
		e.addPC(st, fits)
		of := o.frames[len(o.frames)-1]
		// in the other state force reallocation by replaying with a marker: we re-run the instruction
		// there with cap forced to "too small"
		_ = of
		r := dst
		r.len = newLen
		tail := SliceV{obj: dst.obj, base: dst.base, n: dst.n, off: b.Add(dst.off, dst.len), len: src.len, cap: src.len}
		e.copyElems(st, tail, src, src.len)
		// reallocation in o
		nr := e.growAppend(o, dst, src)
		if x != nil {
			of.locals[x] = nr
		}
		of.ip++
		e.pendingSpawn = append(e.pendingSpawn, o)
		return r, actNext
	}
	return e.growAppend(st, dst, src), actNext
}

// growAppend allocates a new backing array and returns dst ++ src.
func (e *Engine) growAppend(st *State, dst, src SliceV) Val {
	b := e.b
	nd, ns := e.maxLen(dst), e.maxLen(src)
	if os.Getenv("GOSMT_DEBUG_APPEND") != "" {
		l, h, ok := e.termRange(dst.len, 0)
		fmt.Fprintf(os.Stderr, "growAppend: dst phys=%d off=%v nd=%d ns=%d lenrange=%d..%d ok=%v lenop=%v\n", dst.n, dst.off.IsConst(), nd, ns, l, h, ok, dst.len.op)
	}
	// capacity: concrete; Go's exact growth policy is implementation-defined
	newCap := 2*nd + ns
	if newCap < nd+ns {
		newCap = nd + ns
	}
	if newCap < 4 {
		newCap = 4
	}
	var z Val
	// element zero value: take from src/dst element if available
	elems := make([]Val, newCap)
	for i := 0; i < nd; i++ {
		elems[i] = e.elemAt2(st, dst, b.BV(64, uint64(i)))
		if z == nil {
			z = e.zeroLike(elems[i])
		}
	}
	if z == nil && ns > 0 {
		z = e.zeroLike(e.elemAt2(st, src, b.BV(64, 0)))
	}
	for i := nd; i < newCap; i++ {
		elems[i] = z
	}
	r := e.newArray(st, elems, false)
	r.len = b.Add(dst.len, src.len)
	tail := SliceV{obj: r.obj, n: r.n, off: dst.len, len: src.len, cap: src.len}
	e.copyElems(st, tail, src, src.len)
	return r
}

func (e *Engine) elemAt2(st *State, s SliceV, i *Term) Val {
	return e.getPath(e.objVal(st, s.obj), e.elemPtr(s, i).path)
}

// zeroLike builds a zero value with the shape of v.
func (e *Engine) zeroLike(v Val) Val {
	switch x := v.(type) {
	case Scalar:
		if x.t.w == 0 {
			return Scalar{e.b.False()}
		}
		return Scalar{e.b.BV(x.t.w, 0)}
	case StructV:
		r := StructV{f: make([]Val, len(x.f))}
		for i := range x.f {
			r.f[i] = e.zeroLike(x.f[i])
		}
		return r
	case ArrayV:
		r := ArrayV{e: make([]Val, len(x.e))}
		for i := range x.e {
			r.e[i] = e.zeroLike(x.e[i])
		}
		return r
	case Ptr:
		return Ptr{}
	case SliceV:
		return e.nilSlice(x.str)
	case IfaceV:
		return IfaceV{}
	case FuncV:
		return FuncV{}
	case MapRef:
		return MapRef{}
	case Union:
		return e.zeroLike(x.alts[0].v)
	}
	return v
}

// ---------- maps ----------
func (e *Engine) execLookup(st *State, f *Frame, x *ssa.Lookup) (action, []*State) {
	b := e.b
	mv := e.get(st, f, x.X)
	kv := e.get(st, f, x.Index)
	if p, ok := e.poisonOperand(mv, kv); ok {
		e.bindResult(f, x, nil, p)
		return actNext, nil
	}
	if u, ok := mv.(Union); ok {
		return actAgain, e.splitOn(st, f, x.X, u)
	}
	if sv, ok := mv.(SliceV); ok { // string index
		it, _ := scalarOf(kv)
		idx := b.Resize(it, 64, isSigned(x.Index.Type()))
		e.guard(st, b.Ult(idx, sv.len), "string index out of range", x.Pos())
		f.locals[x] = e.elemAt(sv, idx)
		return actNext, nil
	}
	m, ok := mv.(MapRef)
	if !ok {
		e.bindResult(f, x, nil, Poison{fmt.Sprintf("lookup in %T", mv)})
		return actNext, nil
	}
	vt := x.X.Type().Underlying().(*types.Map).Elem()
	res := e.zero(vt)
	found := b.False()
	if m.obj != 0 {
		mo := e.objVal(st, m.obj).(MapObj)
		for i := len(mo.entries) - 1; i >= 0; i-- {
			en := mo.entries[i]
			e.curPoison = ""
			eq := e.eqVal(en.key, kv)
			if eq == nil {
				e.bindResult(f, x, nil, Poison{"map lookup: " + e.curPoison})
				return actNext, nil
			}
			hit := b.And(en.present, eq)
			if hit.IsFalse() {
				continue
			}
			res = e.mergeVal(hit, en.val, res)
			found = b.Or(found, hit)
		}
	}
	if x.CommaOk {
		f.locals[x] = TupleV{res, Scalar{found}}
	} else {
		f.locals[x] = res
	}
	return actNext, nil
}

func (e *Engine) execMapUpdate(st *State, f *Frame, x *ssa.MapUpdate) (action, []*State) {
	mv := e.get(st, f, x.Map)
	kv := e.get(st, f, x.Key)
	vv := e.get(st, f, x.Value)
	if u, ok := mv.(Union); ok {
		return actAgain, e.splitOn(st, f, x.Map, u)
	}
	if p, ok := e.poisonOperand(mv, kv); ok {
		e.poisonPath(st, "map update with poisoned map/key: "+p.why)
		return actDead, nil
	}
	m, ok := mv.(MapRef)
	if !ok {
		e.poisonPath(st, fmt.Sprintf("map update on %T", mv))
		return actDead, nil
	}
	if m.obj == 0 {
		e.guard(st, e.b.False(), "assignment to entry in nil map", x.Pos())
		return actDead, nil
	}
	if !e.mapSet(st, m.obj, kv, vv) {
		e.poisonPath(st, "map update: "+e.curPoison)
		return actDead, nil
	}
	return actNext, nil
}

func (e *Engine) mapSet(st *State, obj int, kv, vv Val) bool {
	b := e.b
	mo := e.objVal(st, obj).(MapObj)
	nm := MapObj{kt: mo.kt, vt: mo.vt, entries: make([]MapEntry, len(mo.entries), len(mo.entries)+1)}
	any := b.False()
	for i, en := range mo.entries {
		e.curPoison = ""
		eq := e.eqVal(en.key, kv)
		if eq == nil {
			return false
		}
		hit := b.And(en.present, eq)
		nm.entries[i] = MapEntry{en.present, en.key, e.mergeVal(hit, vv, en.val)}
		any = b.Or(any, hit)
	}
	if !any.IsTrue() {
		nm.entries = append(nm.entries, MapEntry{b.Not(any), kv, vv})
	}
	e.setObj(st, obj, nm)
	return true
}

func (e *Engine) execNext(st *State, f *Frame, x *ssa.Next) (action, []*State) {
	b := e.b
	itv := e.get(st, f, x.Iter)
	ir, ok := itv.(IterRef)
	if !ok {
		if u, ok := itv.(Union); ok {
			return actAgain, e.splitOn(st, f, x.Iter, u)
		}
		f.locals[x] = TupleV{Poison{"next"}, Poison{"next"}, Poison{"next"}}
		return actNext, nil
	}
	io := e.objVal(st, ir.obj).(IterObj)
	if x.IsString {
		// ASCII only: bytes >= 0x80 are outside the supported fragment
		s := io.s
		has := b.Ult(io.idx, s.len)
		var ch Val = Scalar{b.BV(8, 0)}
		if s.obj != 0 && e.maxLen(s) > 0 {
			ch = e.getPath(e.objVal(st, s.obj), e.elemPtr(s, e.clampIdx(io.idx, e.maxLen(s))).path)
		}
		ct, ok := scalarOf(ch)
		if !ok {
			f.locals[x] = TupleV{Poison{"next"}, Poison{"next"}, Poison{"next"}}
			return actNext, nil
		}
		nonASCII := b.And(has, b.Not(b.Ult(ct, b.BV(8, 0x80))))
		if !nonASCII.IsFalse() {
			e.newObl(oblPoison, st, nonASCII, "unsupported: range over non-ASCII string", e.posStr(x.Pos()))
			e.addPC(st, b.Not(nonASCII))
		}
		f.locals[x] = TupleV{Scalar{has}, Scalar{io.idx}, Scalar{b.Zext(ct, 32)}}
		e.setObj(st, ir.obj, IterObj{m: 0, s: s, idx: b.Ite(has, b.Add(io.idx, b.BV(64, 1)), io.idx)})
		return actNext, nil
	}
	mt := x.Iter.(*ssa.Range).X.Type().Underlying().(*types.Map)
	var k, v Val = e.zero(mt.Key()), e.zero(mt.Elem())
	okc := b.False()
	nidx := io.idx
	if io.m != 0 {
		mo := e.objVal(st, io.m).(MapObj)
		fwd := b.True()
		if io.rev != nil {
			fwd = b.Not(io.rev)
		}
		for i := len(mo.entries) - 1; i >= 0; i-- {
			en := mo.entries[i]
			cand := b.And(fwd, b.And(en.present, b.Ule(io.idx, b.BV(64, uint64(i)))))
			if cand.IsFalse() {
				continue
			}
			k = e.mergeVal(cand, en.key, k)
			v = e.mergeVal(cand, en.val, v)
			nidx = b.Ite(cand, b.BV(64, uint64(i+1)), nidx)
			okc = b.Or(okc, cand)
		}
		if io.rev != nil {
			// last-to-first over the io.n entries present when the iteration started: idx counts the positions
			// consumed from the top; the next entry is the largest i < n-idx that is present
			for i := 0; i < io.n && i < len(mo.entries); i++ {
				en := mo.entries[i]
				cand := b.And(io.rev, b.And(en.present, b.Ult(b.Add(io.idx, b.BV(64, uint64(i))), b.BV(64, uint64(io.n)))))
				if cand.IsFalse() {
					continue
				}
				k = e.mergeVal(cand, en.key, k)
				v = e.mergeVal(cand, en.val, v)
				nidx = b.Ite(cand, b.BV(64, uint64(io.n-i)), nidx)
				okc = b.Or(okc, cand)
			}
		}
	}
	f.locals[x] = TupleV{Scalar{okc}, k, v}
	e.setObj(st, ir.obj, IterObj{m: io.m, s: io.s, idx: nidx, rev: io.rev, n: io.n})
	return actNext, nil
}

// fullName helpers
func hasPrefixAny(s string, ps ...string) bool {
	for _, p := range ps {
		if strings.HasPrefix(s, p) {
			return true
		}
	}
	return false
}

func (e *Engine) recursionBound() int {
	if e.cfg != nil {
		if n, ok := e.cfg.Unwind["recursion"]; ok {
			return n
		}
	}
	return 4
}
