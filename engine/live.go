package main

// Liveness of SSA values (to prune dead locals at joins) and ownership-checked
// copy-on-merge of slices that live in different backing objects.

import (
	"golang.org/x/tools/go/ssa"
)

type liveInfo struct {
	in map[*ssa.BasicBlock]map[ssa.Value]bool // live at block entry (before phis: phi operands excluded, phi results included if used)
}

func isLocalValue(v ssa.Value) bool {
	switch v.(type) {
	case *ssa.Const, *ssa.Global, *ssa.Function, *ssa.Builtin:
		return false
	}
	return v != nil
}

func (e *Engine) liveness(fn *ssa.Function) *liveInfo {
	if li, ok := e.live_[fn]; ok {
		return li
	}
	li := &liveInfo{in: map[*ssa.BasicBlock]map[ssa.Value]bool{}}
	out := map[*ssa.BasicBlock]map[ssa.Value]bool{}
	for _, b := range fn.Blocks {
		li.in[b] = map[ssa.Value]bool{}
		out[b] = map[ssa.Value]bool{}
	}
	changed := true
	for changed {
		changed = false
		for bi := len(fn.Blocks) - 1; bi >= 0; bi-- {
			b := fn.Blocks[bi]
			// out = union over succs of (in[s] minus s's phi results) plus the phi operands flowing along this edge
			o := out[b]
			for _, s := range b.Succs {
				pi := -1
				for k, p := range s.Preds {
					if p == b {
						pi = k
					}
				}
				for v := range li.in[s] {
					if phi, ok := v.(*ssa.Phi); ok && phi.Block() == s {
						continue
					}
					if !o[v] {
						o[v] = true
						changed = true
					}
				}
				for _, in := range s.Instrs {
					phi, ok := in.(*ssa.Phi)
					if !ok {
						break
					}
					if pi >= 0 {
						if v := phi.Edges[pi]; isLocalValue(v) && !o[v] {
							o[v] = true
							changed = true
						}
					}
				}
			}
			// in = (out - defs) + uses, walking backwards; phis: results defined here, operands not used here
			cur := map[ssa.Value]bool{}
			for v := range o {
				cur[v] = true
			}
			for k := len(b.Instrs) - 1; k >= 0; k-- {
				in := b.Instrs[k]
				if v, ok := in.(ssa.Value); ok {
					if _, isPhi := in.(*ssa.Phi); !isPhi {
						delete(cur, v)
					}
				}
				if _, isPhi := in.(*ssa.Phi); isPhi {
					continue
				}
				var ops [12]*ssa.Value
				for _, op := range in.Operands(ops[:0]) {
					if *op != nil && isLocalValue(*op) {
						cur[*op] = true
					}
				}
			}
			// phi results stay "live in" if used (they are assigned on entry)
			old := li.in[b]
			if len(cur) != len(old) {
				changed = true
			} else {
				for v := range cur {
					if !old[v] {
						changed = true
						break
					}
				}
			}
			li.in[b] = cur
		}
	}
	e.live_[fn] = li
	return li
}

// liveAt returns the values live just before instruction ip of blk executes
// (for a frame suspended in a call at ip, pass after=true: live after that instruction).
func (e *Engine) liveAt(fn *ssa.Function, blk *ssa.BasicBlock, ip int, after bool) map[ssa.Value]bool {
	li := e.liveness(fn)
	// recompute out[blk] from successors
	cur := map[ssa.Value]bool{}
	for _, s := range blk.Succs {
		pi := -1
		for k, p := range s.Preds {
			if p == blk {
				pi = k
			}
		}
		for v := range li.in[s] {
			if phi, ok := v.(*ssa.Phi); ok && phi.Block() == s {
				continue
			}
			cur[v] = true
		}
		for _, in := range s.Instrs {
			phi, ok := in.(*ssa.Phi)
			if !ok {
				break
			}
			if pi >= 0 && isLocalValue(phi.Edges[pi]) {
				cur[phi.Edges[pi]] = true
			}
		}
	}
	start := ip
	if after {
		start = ip + 1
	}
	for k := len(blk.Instrs) - 1; k >= start; k-- {
		in := blk.Instrs[k]
		if v, ok := in.(ssa.Value); ok {
			delete(cur, v)
		}
		if _, isPhi := in.(*ssa.Phi); isPhi {
			continue
		}
		var ops [12]*ssa.Value
		for _, op := range in.Operands(ops[:0]) {
			if *op != nil && isLocalValue(*op) {
				cur[*op] = true
			}
		}
	}
	return cur
}

// pruneDead drops dead SSA values from the frames of a state waiting at a join.
func (e *Engine) pruneDead(st *State) {
	for i, f := range st.frames {
		top := i == len(st.frames)-1
		if f.blk == nil {
			continue
		}
		var live map[ssa.Value]bool
		if top {
			live = e.liveAt(f.fn, f.blk, f.ip, false)
		} else {
			// suspended in the call at f.ip: RunDefers re-executes the same instruction, keep its operands too
			if _, isRD := f.blk.Instrs[f.ip].(*ssa.RunDefers); isRD {
				live = e.liveAt(f.fn, f.blk, f.ip, false)
			} else {
				live = e.liveAt(f.fn, f.blk, f.ip, true)
			}
		}
		for v := range f.locals {
			if live[v] {
				continue
			}
			switch v.(type) {
			case *ssa.Parameter, *ssa.FreeVar:
				if live[v] {
					continue
				}
			}
			delete(f.locals, v)
		}
	}
}

// ---------- ownership ----------

// refCounts counts, for every heap object, the number of reference occurrences from the live locals of
// all frames, deferred calls and all heap objects of the state.
func (e *Engine) refCounts(st *State) map[int]int {
	cnt := map[int]int{}
	var walk func(v Val)
	walk = func(v Val) {
		switch x := v.(type) {
		case Ptr:
			if x.obj != 0 {
				cnt[x.obj]++
			}
		case SliceV:
			if x.obj != 0 {
				cnt[x.obj]++
			}
		case MapRef:
			if x.obj != 0 {
				cnt[x.obj]++
			}
		case IterRef:
			cnt[x.obj]++
		case StructV:
			for _, f := range x.f {
				walk(f)
			}
		case ArrayV:
			for _, el := range x.e {
				if _, ok := el.(Scalar); ok {
					continue
				}
				walk(el)
			}
		case TupleV:
			for _, el := range x {
				walk(el)
			}
		case IfaceV:
			walk(x.v)
		case FuncV:
			for _, b := range x.bind {
				walk(b)
			}
		case Union:
			for _, a := range x.alts {
				walk(a.v)
			}
		case MapObj:
			for _, en := range x.entries {
				walk(en.key)
				walk(en.val)
			}
		case IterObj:
			if x.m != 0 {
				cnt[x.m]++
			}
			walk(x.s)
		}
	}
	for _, f := range st.frames {
		for _, v := range f.locals {
			walk(v)
		}
		for _, d := range f.defers {
			walk(d.fn)
			for _, a := range d.args {
				walk(a)
			}
		}
	}
	for _, c := range st.heap {
		walk(c.v)
	}
	return cnt
}

// isScalarArray reports whether obj holds a flat array of scalars of one width.
func (e *Engine) scalarArray(st *State, s SliceV) (ArrayV, bool) {
	if len(s.base) != 0 {
		return ArrayV{}, false
	}
	av, ok := e.objVal(st, s.obj).(ArrayV)
	if !ok {
		return ArrayV{}, false
	}
	for _, el := range av.e {
		if _, ok := el.(Scalar); !ok {
			return ArrayV{}, false
		}
	}
	return av, true
}

// tryCopyMerge merges two slices over different, exclusively owned scalar arrays into one fresh object.
// ca/cb are the reference counts in the two states; n is the merged state (receives the new object).
func (e *Engine) tryCopyMerge(c *Term, x, y SliceV, a, b, n *State, ca, cb map[int]int) (Val, bool) {
	if x.obj == 0 || y.obj == 0 || x.obj == y.obj || x.str != y.str {
		return nil, false
	}
	if ca[x.obj] != 1 || cb[y.obj] != 1 {
		return nil, false
	}
	// objects of the shared initial heap (literals, globals) are never owned
	if _, shared := e.initState.heap[x.obj]; shared {
		return nil, false
	}
	if _, shared := e.initState.heap[y.obj]; shared {
		return nil, false
	}
	ax, ok1 := e.scalarArray(a, x)
	ay, ok2 := e.scalarArray(b, y)
	if !ok1 || !ok2 || !x.off.IsConst() || !y.off.IsConst() {
		return nil, false
	}
	if len(ax.e) > 0 && len(ay.e) > 0 && ax.e[0].(Scalar).t.w != ay.e[0].(Scalar).t.w {
		return nil, false
	}
	ox, oy := int(x.off.val), int(y.off.val)
	nx, ny := len(ax.e)-ox, len(ay.e)-oy
	if nx < 0 || ny < 0 {
		return nil, false
	}
	nn := nx
	if ny > nn {
		nn = ny
	}
	if nn == 0 {
		return nil, false
	}
	var w int
	if nx > 0 {
		w = ax.e[ox].(Scalar).t.w
	} else {
		w = ay.e[oy].(Scalar).t.w
	}
	zero := e.b.BV(maxInt(w, 1), 0)
	if w == 0 {
		zero = e.b.False()
	}
	elems := make([]Val, nn)
	for i := 0; i < nn; i++ {
		tx, ty := zero, zero
		if i < nx {
			tx = ax.e[ox+i].(Scalar).t
		}
		if i < ny {
			ty = ay.e[oy+i].(Scalar).t
		}
		elems[i] = Scalar{e.b.Ite(c, tx, ty)}
	}
	e.nobj++
	id := e.nobj
	e.nstamp++
	n.heap[id] = cell{ArrayV{e: elems}, e.nstamp}
	delete(n.heap, x.obj)
	delete(n.heap, y.obj)
	e.copyMerges++
	return SliceV{obj: id, off: e.b.BV(64, 0), len: e.b.Ite(c, x.len, y.len), cap: e.b.Ite(c, x.cap, y.cap), str: x.str,
		nl: e.b.Ite(c, e.slNil(x), e.slNil(y)), n: nn}, true
}

func maxInt(a, b int) int {
	if a > b {
		return a
	}
	return b
}
