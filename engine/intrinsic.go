package main

import (
	"strconv"
	"fmt"
	"go/token"
	"go/types"
	"strings"

	"golang.org/x/tools/go/ssa"
)

type inputDecl struct {
	Key   string
	Kind  string // scalar | array
	Width int
	Terms []*Term
}

type ufRecord struct {
	name string
	args [][]*Term
	out  []*Term
}

func (e *Engine) inputKey(st *State, name string) string {
	if st.names == nil {
		st.names = map[string]int{}
	}
	k := st.names[name]
	if k < 0 {
		e.ambiguousInput = name
		return name + "#ambiguous"
	}
	st.names[name] = k + 1
	if k == 0 {
		return name
	}
	return fmt.Sprintf("%s#%d", name, k)
}

func (e *Engine) newInput(key string, w int) *Term {
	t := e.b.Var(w, "in_"+key)
	return t
}

func (e *Engine) declScalar(key string, w int) *Term {
	if d, ok := e.inputDecls[key]; ok {
		return d.Terms[0]
	}
	t := e.newInput(key, w)
	e.inputDecls[key] = &inputDecl{Key: key, Kind: "scalar", Width: w, Terms: []*Term{t}}
	e.inputOrder = append(e.inputOrder, key)
	return t
}

func (e *Engine) declArray(key string, w, n int) []*Term {
	if d, ok := e.inputDecls[key]; ok && len(d.Terms) >= n {
		return d.Terms[:n]
	}
	d := &inputDecl{Key: key, Kind: "array", Width: w}
	for i := 0; i < n; i++ {
		d.Terms = append(d.Terms, e.newInput(fmt.Sprintf("%s[%d]", key, i), w))
	}
	if _, ok := e.inputDecls[key]; !ok {
		e.inputOrder = append(e.inputOrder, key)
	}
	e.inputDecls[key] = d
	return d.Terms
}

func (e *Engine) strArg(st *State, v Val) (string, bool) {
	s, ok := v.(SliceV)
	if !ok {
		return "", false
	}
	return e.concreteString(st, s)
}

func constInt(v Val) (int64, bool) {
	t, ok := scalarOf(v)
	if !ok || !t.IsConst() {
		return 0, false
	}
	return sext64(t.val, t.w), true
}

// intrinsic handles harness API calls, engine-modelled library functions and configured stubs.
func (e *Engine) intrinsic(st *State, f *Frame, x ssa.Value, callee *ssa.Function, full string, args []Val, pos token.Pos) (Val, bool, action, []*State) {
	b := e.b
	name := callee.Name()
	pkg := ""
	if callee.Pkg != nil {
		pkg = callee.Pkg.Pkg.Path()
	} else if o := callee.Origin(); o != nil && o.Pkg != nil {
		pkg = o.Pkg.Pkg.Path()
	} else if callee.Signature.Recv() != nil {
		if n, ok := derefNamed(callee.Signature.Recv().Type()); ok && n.Obj().Pkg() != nil {
			pkg = n.Obj().Pkg().Path()
		}
	}
	ret := func(v Val) (Val, bool, action, []*State) { return v, true, actNext, nil }
	dead := func() (Val, bool, action, []*State) { return nil, true, actDead, nil }

	// ----- harness API -----
	if strings.HasPrefix(name, "verif") && callee.Blocks == nil {
		switch name {
		case "verifU8", "verifU16", "verifU32", "verifU64", "verifBool":
			w := map[string]int{"verifU8": 8, "verifU16": 16, "verifU32": 32, "verifU64": 64, "verifBool": 0}[name]
			n, ok := e.strArg(st, args[0])
			if !ok {
				e.poisonPath(st, name+": name must be concrete")
				return dead()
			}
			key := e.inputKey(st, n)
			if w == 0 {
				t := e.declScalar(key, 1)
				return ret(Scalar{b.Eq(t, b.BV(1, 1))})
			}
			return ret(Scalar{e.declScalar(key, w)})
		case "verifInt":
			n, ok := e.strArg(st, args[0])
			lo, ok1 := constInt(args[1])
			hi, ok2 := constInt(args[2])
			if !ok || !ok1 || !ok2 {
				e.poisonPath(st, "verifInt: name and range must be concrete")
				return dead()
			}
			t := e.declScalar(e.inputKey(st, n), 64)
			// the range constraint is built (and hash-consed) before the range is declared, so that it is not
			// itself folded away by the interval analysis
			cond, ok := e.rangeConds[t]
			if !ok {
				b.ClearVarRange(t)
				cond = b.And(b.Sle(b.BV(64, uint64(lo)), t), b.Sle(t, b.BV(64, uint64(hi))))
				e.rangeConds[t] = cond
			}
			if lo >= 0 {
				e.varRange[t] = [2]uint64{uint64(lo), uint64(hi)}
				b.SetVarRange(t, uint64(lo), uint64(hi))
			}
			e.addPC(st, cond)
			return ret(Scalar{t})
		case "verifBytes", "verifWords", "verifU32s":
			n, ok := e.strArg(st, args[0])
			cnt, ok1 := constInt(args[1])
			if !ok || !ok1 || cnt < 0 || cnt > 1<<16 {
				e.poisonPath(st, name+": name and size must be concrete")
				return dead()
			}
			w := map[string]int{"verifBytes": 8, "verifWords": 64, "verifU32s": 32}[name]
			ts := e.declArray(e.inputKey(st, n), w, int(cnt))
			elems := make([]Val, cnt)
			for i := range elems {
				elems[i] = Scalar{ts[i]}
			}
			return ret(e.newArray(st, elems, false))
		case "verifString":
			n, ok := e.strArg(st, args[0])
			cnt, ok1 := constInt(args[1])
			if !ok || !ok1 || cnt < 0 || cnt > 4096 {
				e.poisonPath(st, name+": name and size must be concrete")
				return dead()
			}
			key := e.inputKey(st, n)
			ts := e.declArray(key, 8, int(cnt))
			lt := e.declScalar(key+".len", 64)
			cond, okc := e.rangeConds[lt]
			if !okc {
				b.ClearVarRange(lt)
				cond = b.Ule(lt, b.BV(64, uint64(cnt)))
				e.rangeConds[lt] = cond
			}
			e.varRange[lt] = [2]uint64{0, uint64(cnt)}
			b.SetVarRange(lt, 0, uint64(cnt))
			e.addPC(st, cond)
			elems := make([]Val, cnt)
			for i := range elems {
				elems[i] = Scalar{ts[i]}
			}
			s := e.newArray(st, elems, true)
			s.len, s.cap = lt, lt
			return ret(s)
		case "verifCase":
			n, ok := e.strArg(st, args[0])
			if !ok {
				e.poisonPath(st, "verifCase: name must be concrete")
				return dead()
			}
			v, ok := e.cases[n]
			if !ok {
				e.poisonPath(st, "verifCase: no value for case "+n)
				return dead()
			}
			return ret(Scalar{b.BV(64, uint64(v))})
		case "verifAssume":
			c, ok := scalarOf(args[0])
			if !ok {
				e.poisonPath(st, "verifAssume on unsupported value: "+poisonWhy(args[0]))
				return dead()
			}
			if c.IsFalse() {
				st.frames = nil
				return dead()
			}
			e.addPC(st, c)
			return ret(nil)
		case "verifAssert":
			c, ok := scalarOf(args[0])
			msg, _ := e.strArg(st, args[1])
			if !ok {
				e.poisonPath(st, "verifAssert("+msg+") on unsupported value: "+poisonWhy(args[0]))
				return dead()
			}
			if !c.IsTrue() {
				e.newObl(oblAssert, st, b.Not(c), msg, e.callerPos(st, pos))
				e.addPC(st, c)
			}
			e.nAsserts++
			return ret(nil)
		case "verifKnown":
			id, ok := e.strArg(st, args[0])
			c, ok2 := scalarOf(args[1])
			if !ok || !ok2 {
				e.poisonPath(st, "verifKnown: bad arguments")
				return dead()
			}
			e.knownSeen[id] = true
			if e.mode == id {
				if c.IsFalse() {
					st.frames = nil
					return dead()
				}
				e.addPC(st, c)
				return ret(Scalar{b.False()})
			}
			if e.openFindings[id] {
				return ret(Scalar{c})
			}
			return ret(Scalar{b.False()})
		case "verifObserve":
			n, _ := e.strArg(st, args[0])
			t, ok := scalarOf(args[1])
			if ok {
				e.observes = append(e.observes, observation{n, e.conj(st.pc), t})
			}
			return ret(nil)
		case "verifUF":
			// verifUF(name string, outLen int, args ...[]byte) []byte : uninterpreted function over byte strings
			return e.ufBytes(st, args)
		}
		e.poisonPath(st, "unknown harness function "+name)
		return dead()
	}

	// ----- configured stubs -----
	if e.cfg != nil && e.cfg.Stubs != nil {
		how, ok := e.cfg.Stubs[full]
		if !ok {
			how, ok = e.cfg.Stubs[strings.TrimPrefix(full, "github.com/slackhq/nebula")]
		}
		if ok {
			e.noteStub(full + "=" + how)
			switch how {
			case "noop", "zero":
				return ret(e.zeroResults(callee))
			default:
				// replacement harness function with the same parameter list (receiver first)
				var rf *ssa.Function
				if callee.Pkg != nil {
					rf = callee.Pkg.Func(how)
				}
				if rf == nil && e.harnessPkg != nil {
					rf = e.harnessPkg.Func(how)
				}
				if rf == nil {
					e.poisonPath(st, "stub replacement not found: "+how)
					return dead()
				}
				act, sp := e.callFunc(st, f, x, FuncV{fn: rf}, args, pos, false)
				return nil, true, act2(act), sp
			}
		}
	}

	// ----- library models -----
	switch pkg {
	case "log/slog", "github.com/rcrowley/go-metrics", "log", "github.com/sirupsen/logrus", "runtime/debug", "runtime/pprof", "runtime/trace":
		e.noteStub(pkg + ".*=noop")
		return ret(e.zeroResults(callee))
	case "context":
		if name == "Background" || name == "TODO" {
			return ret(IfaceV{})
		}
	case "internal/stringslite", "strings":
		if name == "Clone" {
			return ret(args[0]) // strings are immutable: a clone is indistinguishable from the original
		}
		if name == "copyCheck" {
			return ret(nil) // (*strings.Builder).copyCheck: self-pointer bookkeeping only
		}
	case "internal/abi":
		if name == "NoEscape" || name == "Escape" {
			return ret(args[0])
		}
	case "math/bits":
		if r := e.mathBits(name, args); r != nil {
			return ret(r)
		}
	case "sync":
		if r, ok := e.syncModel(st, callee, name, args, pos); ok {
			return ret(r)
		}
	case "sync/atomic", "internal/runtime/atomic":
		if r, ok, act := e.atomicModel(st, callee, name, args, pos); ok {
			if act == actDead {
				return dead()
			}
			return ret(r)
		}
	case "internal/bytealg":
		if r, ok := e.bytealg(st, name, args); ok {
			return ret(r)
		}
	case "runtime":
		switch name {
		case "KeepAlive", "GC", "Gosched", "SetFinalizer":
			return ret(nil)
		case "GOMAXPROCS", "NumCPU":
			return ret(Scalar{b.BV(64, 4)})
		}
	case "os":
		if name == "Getenv" {
			return ret(e.constString(""))
		}
	case "fmt":
		switch name {
		case "Errorf":
			return ret(e.freshError(st, "fmt.Errorf@"+e.posStr(pos)))
		case "Sprintf", "Sprint", "Sprintln":
			// fmt.Sprintf("%v", x) with one operand: a string operand is returned as it is, a concrete integer or
			// boolean operand is formatted; a guarded union of such operands gives the union of the results;
			// everything else is outside the supported fragment
			if name == "Sprintf" && len(args) == 2 {
				if fs, ok := e.strArg(st, args[0]); ok && (fs == "%v" || fs == "%s" || fs == "%d") {
					if va, ok := args[1].(SliceV); ok && va.len.IsConst() && va.len.val == 1 {
						one := func(v Val) (Val, bool) {
							iv, ok := v.(IfaceV)
							if !ok || iv.dyn == nil {
								return nil, false
							}
							bt, ok := iv.dyn.Underlying().(*types.Basic)
							if !ok {
								return nil, false
							}
							switch {
							case bt.Info()&types.IsString != 0 && fs != "%d":
								if sv, ok := iv.v.(SliceV); ok {
									return sv, true
								}
							case bt.Info()&types.IsInteger != 0 && fs != "%s":
								if c, ok := constInt(iv.v); ok {
									if bt.Info()&types.IsUnsigned != 0 {
										t, _ := scalarOf(iv.v)
										return e.constString(strconv.FormatUint(t.val, 10)), true
									}
									return e.constString(strconv.FormatInt(c, 10)), true
								}
							case bt.Info()&types.IsBoolean != 0 && fs == "%v":
								if t, ok := scalarOf(iv.v); ok && t.IsConst() {
									if t.val == 1 {
										return e.constString("true"), true
									}
									return e.constString("false"), true
								}
							}
							return nil, false
						}
						el := e.elemAt2(st, va, b.BV(64, 0))
						if u, ok := el.(Union); ok {
							var alts []Alt
							good := true
							for _, al := range u.alts {
								if r, ok := one(al.v); ok {
									alts = append(alts, Alt{al.g, r})
								} else if iv, isI := al.v.(IfaceV); isI && iv.dyn == nil {
									alts = append(alts, Alt{al.g, e.constString("<nil>")})
								} else {
									good = false
								}
							}
							if good && len(alts) > 0 {
								return ret(Union{alts})
							}
						} else if r, ok := one(el); ok {
							return ret(r)
						}
					}
				}
			}
			return ret(Poison{"fmt." + name + " result"})
		case "Println", "Printf", "Print", "Fprintf", "Fprintln", "Fprint":
			return ret(e.zeroResults(callee))
		}
	case "errors":
		switch name {
		case "Is":
			// identity, or identity of the error wrapped in an `Err` field of a type with an Unwrap method
			// (strconv.NumError, fs.PathError, net.OpError ...), up to 3 levels; Unions are followed per alternative
			var isRec func(cur Val, lvl int) *Term
			isRec = func(cur Val, lvl int) *Term {
				if u, ok := cur.(Union); ok {
					r := b.False()
					for _, al := range u.alts {
						t := isRec(al.v, lvl)
						if t == nil {
							return nil
						}
						r = b.Or(r, b.And(al.g, t))
					}
					return r
				}
				e.curPoison = ""
				t := e.eqVal(cur, args[1])
				if t == nil {
					return nil
				}
				if lvl >= 3 {
					return t
				}
				iv, ok := cur.(IfaceV)
				if !ok || iv.dyn == nil {
					return t
				}
				next, ok := e.unwrapErr(st, iv, pos)
				if !ok {
					return t
				}
				t2 := isRec(next, lvl+1)
				if t2 == nil {
					return nil
				}
				return b.Or(t, t2)
			}
			res := isRec(args[0], 0)
			if res == nil {
				return ret(Poison{"errors.Is: " + e.curPoison})
			}
			return ret(Scalar{res})
		case "Join":
			return ret(e.freshError(st, "errors.Join@"+e.posStr(pos)))
		}
	case "time":
		if r, ok := e.timeModel(st, callee, name, full, args, pos); ok {
			return ret(r)
		}
	case "reflect":
		if r, ok := e.reflectModel(st, callee, name, args); ok {
			return ret(r)
		}
	case "unique":
		if strings.HasPrefix(name, "Make") {
			return ret(e.uniqueMake(st, callee, args))
		}
		if name == "Value" {
			// (Handle[T]).Value
			h, ok := args[0].(StructV)
			if ok && len(h.f) == 1 {
				return ret(e.load(st, h.f[0], pos))
			}
		}
	case "crypto/rand":
		if name == "Read" {
			// fills the slice with fresh bytes
			if s, ok := args[0].(SliceV); ok && s.len.IsConst() {
				key := e.inputKey(st, "rand")
				ts := e.declArray(key, 8, int(s.len.val))
				for i := 0; i < int(s.len.val); i++ {
					e.store(st, e.elemPtr(s, b.BV(64, uint64(i))), Scalar{ts[i]}, pos)
				}
				return ret(TupleV{Scalar{s.len}, IfaceV{}})
			}
		}
	}
	return nil, false, actNext, nil
}

func act2(a action) action { return a }

func poisonWhy(v Val) string {
	if p, ok := v.(Poison); ok {
		return p.why
	}
	return fmt.Sprintf("%T", v)
}

func derefNamed(t types.Type) (*types.Named, bool) {
	if p, ok := t.(*types.Pointer); ok {
		t = p.Elem()
	}
	n, ok := t.(*types.Named)
	return n, ok
}

func (e *Engine) callerPos(st *State, pos token.Pos) string {
	return e.posStr(pos)
}

func (e *Engine) zeroResults(callee *ssa.Function) Val {
	res := callee.Signature.Results()
	switch res.Len() {
	case 0:
		return nil
	case 1:
		return e.zero(res.At(0).Type())
	}
	tv := make(TupleV, res.Len())
	for i := range tv {
		tv[i] = e.zero(res.At(i).Type())
	}
	return tv
}

// freshError returns a distinct non-nil error value.
func (e *Engine) freshError(st *State, tag string) Val {
	if e.errType == nil {
		// *errors.errorString
		if p := e.prog.ImportedPackage("errors"); p != nil {
			if t := p.Type("errorString"); t != nil {
				e.errType = types.NewPointer(t.Type())
			}
		}
	}
	id := e.alloc(st, StructV{f: []Val{e.constString(tag)}})
	if e.errType == nil {
		return Poison{"no errors package"}
	}
	return IfaceV{dyn: e.errType, v: Ptr{obj: id}}
}

func (e *Engine) mathBits(name string, args []Val) Val {
	b := e.b
	if len(args) == 0 {
		return nil
	}
	t, ok := scalarOf(args[0])
	if !ok {
		return Poison{"math/bits on non-scalar"}
	}
	w := t.w
	switch {
	case strings.HasPrefix(name, "OnesCount"):
		acc := b.BV(64, 0)
		for i := 0; i < w; i++ {
			acc = b.Add(acc, b.Zext(b.Extract(t, i, i), 64))
		}
		return Scalar{acc}
	case strings.HasPrefix(name, "LeadingZeros"):
		r := b.BV(64, uint64(w))
		for i := 0; i < w; i++ { // lowest set bit processed first, highest wins last
			r = b.Ite(b.Eq(b.Extract(t, i, i), b.BV(1, 1)), b.BV(64, uint64(w-1-i)), r)
		}
		return Scalar{r}
	case strings.HasPrefix(name, "TrailingZeros"):
		r := b.BV(64, uint64(w))
		for i := w - 1; i >= 0; i-- {
			r = b.Ite(b.Eq(b.Extract(t, i, i), b.BV(1, 1)), b.BV(64, uint64(i)), r)
		}
		return Scalar{r}
	case strings.HasPrefix(name, "Len"):
		r := b.BV(64, 0)
		for i := 0; i < w; i++ {
			r = b.Ite(b.Eq(b.Extract(t, i, i), b.BV(1, 1)), b.BV(64, uint64(i+1)), r)
		}
		return Scalar{r}
	case strings.HasPrefix(name, "ReverseBytes"):
		var r *Term
		for i := 0; i < w/8; i++ {
			byt := b.Extract(t, 8*i+7, 8*i)
			if r == nil {
				r = byt
			} else {
				r = b.Concat(r, byt)
			}
		}
		return Scalar{r}
	case name == "Add64" || name == "Add32" || name == "Add":
		y, _ := scalarOf(args[1])
		c, _ := scalarOf(args[2])
		s1 := b.Add(t, y)
		s2 := b.Add(s1, c)
		carry := b.Or(b.Ult(s1, t), b.Ult(s2, s1))
		return TupleV{Scalar{s2}, Scalar{b.BoolToBV(carry, w)}}
	case name == "Sub64" || name == "Sub32" || name == "Sub":
		y, _ := scalarOf(args[1])
		c, _ := scalarOf(args[2])
		d1 := b.Sub(t, y)
		d2 := b.Sub(d1, c)
		borrow := b.Or(b.Ult(t, y), b.Ult(d1, c))
		return TupleV{Scalar{d2}, Scalar{b.BoolToBV(borrow, w)}}
	case name == "RotateLeft64" || name == "RotateLeft32" || name == "RotateLeft" || name == "RotateLeft16" || name == "RotateLeft8":
		k, _ := scalarOf(args[1])
		kk := b.Bin(OpBAnd, b.Resize(k, w, true), b.BV(w, uint64(w-1)))
		l := b.Bin(OpShl, t, kk)
		r := b.Bin(OpLshr, t, b.Bin(OpBAnd, b.Sub(b.BV(w, uint64(w)), kk), b.BV(w, uint64(w-1))))
		return Scalar{b.Ite(b.Eq(kk, b.BV(w, 0)), t, b.Bin(OpBOr, l, r))}
	}
	return nil
}

func (e *Engine) bytealg(st *State, name string, args []Val) (Val, bool) {
	b := e.b
	switch name {
	case "IndexByte", "IndexByteString", "LastIndexByte", "LastIndexByteString":
		s, ok := args[0].(SliceV)
		c, ok2 := scalarOf(args[1])
		if !ok || !ok2 {
			return Poison{"bytealg." + name}, true
		}
		n := e.maxLen(s)
		r := b.BV(64, ^uint64(0))
		last := strings.HasPrefix(name, "Last")
		for k := 0; k < n; k++ {
			i := n - 1 - k
			if last {
				i = k
			}
			it := b.BV(64, uint64(i))
			ch, ok := e.elemAt2(st, s, it).(Scalar)
			if !ok {
				return Poison{"bytealg: non-scalar element"}, true
			}
			hit := b.And(b.Ult(it, s.len), b.Eq(ch.t, c))
			r = b.Ite(hit, it, r)
		}
		return Scalar{r}, true
	case "MakeNoZero":
		nt, ok := scalarOf(args[0])
		if !ok {
			return Poison{"MakeNoZero"}, true
		}
		n := 0
		if nt.IsConst() {
			n = int(nt.val)
		} else if _, h := b.Rng(nt); h <= 1<<16 {
			n = int(h)
		} else {
			n = 64
			if e.cfg != nil && e.cfg.MaxAlloc > 0 {
				n = e.cfg.MaxAlloc
			}
			tooBig := b.Not(b.Ule(nt, b.BV(64, uint64(n))))
			e.newObl(oblPoison, st, tooBig, fmt.Sprintf("allocation above the modelled maximum %d", n), "bytealg.MakeNoZero")
			e.addPC(st, b.Not(tooBig))
		}
		elems := make([]Val, n)
		for i := range elems {
			elems[i] = Scalar{b.BV(8, 0)}
		}
		sl := e.newArray(st, elems, false)
		sl.len, sl.cap = nt, nt
		return sl, true
	case "Equal":
		x, ok1 := args[0].(SliceV)
		y, ok2 := args[1].(SliceV)
		if ok1 && ok2 {
			e.curPoison = ""
			t := e.strEq(x, y)
			if t != nil {
				return Scalar{t}, true
			}
		}
		return Poison{"bytealg.Equal"}, true
	case "Count", "CountString":
		s, ok := args[0].(SliceV)
		c, ok2 := scalarOf(args[1])
		if !ok || !ok2 {
			return Poison{"bytealg." + name}, true
		}
		n := e.maxLen(s)
		r := b.BV(64, 0)
		for i := 0; i < n; i++ {
			it := b.BV(64, uint64(i))
			ch, ok := e.elemAt2(st, s, it).(Scalar)
			if !ok {
				return Poison{"bytealg: non-scalar element"}, true
			}
			r = b.Add(r, b.BoolToBV(b.And(b.Ult(it, s.len), b.Eq(ch.t, c)), 64))
		}
		return Scalar{r}, true
	case "Compare", "CompareString":
		x, ok1 := args[0].(SliceV)
		y, ok2 := args[1].(SliceV)
		if ok1 && ok2 {
			lt, eq := e.strLess(x, y)
			if lt != nil {
				return Scalar{b.Ite(eq, b.BV(64, 0), b.Ite(lt, b.BV(64, ^uint64(0)), b.BV(64, 1)))}, true
			}
		}
		return Poison{"bytealg.Compare"}, true
	}
	return nil, false
}

// ---------- sync ----------
func (e *Engine) syncModel(st *State, callee *ssa.Function, name string, args []Val, pos token.Pos) (Val, bool) {
	recv := callee.Signature.Recv()
	if recv == nil {
		if name == "OnceFunc" || name == "OnceValue" {
			return nil, false
		}
		return nil, false
	}
	n, ok := derefNamed(recv.Type())
	if !ok {
		return nil, false
	}
	switch n.Obj().Name() {
	case "Mutex", "RWMutex":
		p, isPtr := args[0].(Ptr)
		key := 0
		if isPtr {
			key = p.obj*1000 + len(p.path)
			for _, pe := range p.path {
				key = key*31 + pe.field + 1
			}
		}
		switch name {
		case "Lock", "RLock":
			if st.locks == nil {
				st.locks = map[int]int{}
			}
			st.locks[key]++
			e.lockEvents++
			return nil, true
		case "Unlock", "RUnlock":
			if st.locks != nil && st.locks[key] > 0 {
				st.locks[key]--
			}
			return nil, true
		case "TryLock", "TryRLock":
			return Scalar{e.b.True()}, true
		}
	case "WaitGroup":
		return e.zeroResults(callee), true
	case "Once":
		if name == "Do" {
			return nil, false // interpret real body (uses atomic + mutex)
		}
	case "Pool":
		if name == "Get" {
			return nil, false
		}
	}
	return nil, false
}

// held reports whether the mutex at pointer p is held in st (lock monitor).
func (e *Engine) held(st *State, p Ptr) bool {
	key := p.obj*1000 + len(p.path)
	for _, pe := range p.path {
		key = key*31 + pe.field + 1
	}
	return st.locks != nil && st.locks[key] > 0
}

// ---------- sync/atomic (sequential semantics) ----------
func (e *Engine) atomicModel(st *State, callee *ssa.Function, name string, args []Val, pos token.Pos) (Val, bool, action) {
	b := e.b
	if callee.Blocks != nil {
		return nil, false, actNext // typed wrappers have bodies; only the leaf functions are modelled
	}
	switch {
	case strings.HasPrefix(name, "Load"):
		return e.load(st, args[0], pos), true, actNext
	case strings.HasPrefix(name, "Store"):
		e.store(st, args[0], args[1], pos)
		return nil, true, actNext
	case strings.HasPrefix(name, "Add") || strings.HasPrefix(name, "Xadd"):
		old := e.load(st, args[0], pos)
		ot, ok1 := scalarOf(old)
		dt, ok2 := scalarOf(args[1])
		if !ok1 || !ok2 {
			return Poison{"atomic add"}, true, actNext
		}
		nv := Scalar{b.Add(ot, dt)}
		e.store(st, args[0], nv, pos)
		return nv, true, actNext
	case strings.HasPrefix(name, "Swap") || strings.HasPrefix(name, "Xchg"):
		old := e.load(st, args[0], pos)
		e.store(st, args[0], args[1], pos)
		return old, true, actNext
	case strings.HasPrefix(name, "CompareAndSwap") || strings.HasPrefix(name, "Cas"):
		old := e.load(st, args[0], pos)
		e.curPoison = ""
		eq := e.eqVal(old, args[1])
		if eq == nil {
			return Poison{"atomic CAS compare: " + e.curPoison}, true, actNext
		}
		e.store(st, args[0], e.mergeVal(eq, args[2], old), pos)
		return Scalar{eq}, true, actNext
	case strings.HasPrefix(name, "And") || strings.HasPrefix(name, "Or"):
		old := e.load(st, args[0], pos)
		ot, ok1 := scalarOf(old)
		dt, ok2 := scalarOf(args[1])
		if !ok1 || !ok2 {
			return Poison{"atomic and/or"}, true, actNext
		}
		op := OpBAnd
		if strings.HasPrefix(name, "Or") {
			op = OpBOr
		}
		e.store(st, args[0], Scalar{b.Bin(op, ot, dt)}, pos)
		return old, true, actNext
	}
	return nil, false, actNext
}

// ---------- unique ----------
func (e *Engine) uniqueMake(st *State, callee *ssa.Function, args []Val) Val {
	// canonical handle: one heap object per distinct concrete value; symbolic values get a merged lookup
	v := args[0]
	for _, h := range e.uniq {
		e.curPoison = ""
		eq := e.eqVal(h.v, v)
		if eq != nil && eq.IsTrue() {
			return StructV{f: []Val{Ptr{obj: h.obj}}}
		}
	}
	// new canonical object (allocated in the shared initial heap: immutable)
	e.nobj++
	id := e.nobj
	e.nstamp++
	e.initState.heap[id] = cell{v, e.nstamp}
	// symbolic value: choose among existing handles by equality
	var r Val = Ptr{obj: id}
	for _, h := range e.uniq {
		e.curPoison = ""
		eq := e.eqVal(h.v, v)
		if eq == nil {
			return Poison{"unique.Make: incomparable"}
		}
		if !eq.IsFalse() {
			r = e.mergeVal(eq, Ptr{obj: h.obj}, r)
		}
	}
	e.uniq = append(e.uniq, uniqEntry{v, id})
	return StructV{f: []Val{r}}
}

type uniqEntry struct {
	v   Val
	obj int
}

// ---------- UF over byte strings ----------
func (e *Engine) ufBytes(st *State, args []Val) (Val, bool, action, []*State) {
	b := e.b
	name, ok := e.strArg(st, args[0])
	outLen, ok2 := constInt(args[1])
	va, ok3 := args[2].(SliceV)
	if !ok || !ok2 || !ok3 || !va.len.IsConst() {
		e.poisonPath(st, "verifUF: name, outLen and argument count must be concrete")
		return nil, true, actDead, nil
	}
	var ins []*Term
	var inArgs [][]*Term
	for i := 0; i < int(va.len.val); i++ {
		a, ok := e.elemAt2(st, va, b.BV(64, uint64(i))).(SliceV)
		if !ok {
			e.poisonPath(st, "verifUF: argument is not a byte slice")
			return nil, true, actDead, nil
		}
		n := e.maxLen(a)
		var row []*Term
		// include the length so that different lengths are different arguments
		ins = append(ins, a.len)
		row = append(row, a.len)
		for k := 0; k < n; k++ {
			it := b.BV(64, uint64(k))
			ch, ok := e.elemAt2(st, a, it).(Scalar)
			if !ok {
				e.poisonPath(st, "verifUF: non-scalar byte")
				return nil, true, actDead, nil
			}
			// bytes beyond len are masked to zero
			m := b.Ite(b.Ult(it, a.len), ch.t, b.BV(8, 0))
			ins = append(ins, m)
			row = append(row, m)
		}
		inArgs = append(inArgs, row)
	}
	elems := make([]Val, outLen)
	var outs []*Term
	for k := 0; k < int(outLen); k++ {
		t := b.UF(fmt.Sprintf("%s_%d_%d", name, len(ins), k), 8, ins...)
		outs = append(outs, t)
		elems[k] = Scalar{t}
	}
	e.ufLog = append(e.ufLog, ufRecord{name, inArgs, outs})
	return e.newArray(st, elems, false), true, actNext, nil
}

// unwrapErr returns the `Err` field of an error value whose type has an Unwrap method.
func (e *Engine) unwrapErr(st *State, iv IfaceV, pos token.Pos) (Val, bool) {
	ms := e.prog.MethodSets.MethodSet(iv.dyn)
	has := false
	for i := 0; i < ms.Len(); i++ {
		if ms.At(i).Obj().Name() == "Unwrap" {
			has = true
		}
	}
	if !has {
		return nil, false
	}
	t := iv.dyn
	var sv Val = iv.v
	if pt, ok := t.Underlying().(*types.Pointer); ok {
		t = pt.Elem()
		p, ok := iv.v.(Ptr)
		if !ok || p.obj == 0 {
			return nil, false
		}
		sv = e.load(st, p, pos)
	}
	stt, ok := t.Underlying().(*types.Struct)
	if !ok {
		return nil, false
	}
	s, ok := sv.(StructV)
	if !ok {
		return nil, false
	}
	for i := 0; i < stt.NumFields(); i++ {
		if stt.Field(i).Name() == "Err" {
			return s.f[i], true
		}
	}
	return nil, false
}
