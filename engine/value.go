package main

import (
	"fmt"
	"go/types"

	"golang.org/x/tools/go/ssa"
)

// ---------- values ----------
type Val interface{}

type Scalar struct{ t *Term }

type PathEl struct {
	field int   // >=0: struct field; -1: array element idx; -2: sub-array view [idx, idx+n)
	idx   *Term // element index (64-bit) when field < 0
	n     int   // view length for field == -2
	typ   types.Type // field == -3: typed little-endian view of a byte array starting at byte idx
}

// Ptr points into a heap object. obj == 0 is nil.
type Ptr struct {
	obj  int
	path []PathEl
}

// SliceV is a slice or a string (str) over a heap array object. obj == 0: nil/empty.
type SliceV struct {
	obj           int
	off, len, cap *Term
	str           bool
	nl            *Term    // "is nil" condition; nil pointer = decided by obj == 0
	base          []PathEl // path of the backing array inside obj
	n             int      // length of the backing array
}

type StructV struct{ f []Val }
type ArrayV struct{ e []Val }

// IfaceV: dyn == nil is the nil interface.
type IfaceV struct {
	dyn types.Type
	v   Val
}
type TupleV []Val

// FuncV: fn == nil is the nil func.
type FuncV struct {
	fn   *ssa.Function
	bind []Val
}

// MapRef refers to a MapObj heap object; obj == 0 is the nil map.
type MapRef struct{ obj int }

// IterRef refers to an IterObj heap object (range over map / string).
type IterRef struct{ obj int }

// ChanV: channels are opaque tokens (no blocking operation is supported).
type ChanV struct{ obj int }

// Union is a guarded choice between values that cannot be merged structurally
// (pointers to different objects, interfaces of different dynamic type, ...).
// Guards are mutually exclusive.
type Alt struct {
	g *Term
	v Val
}
type Union struct{ alts []Alt }

// Poison marks a value the engine could not compute (unsupported construct).
// It propagates; a path that needs it for control flow or an obligation is
// reported inconclusive.
type Poison struct{ why string }

// heap-only objects
type MapEntry struct {
	present *Term
	key     Val
	val     Val
}
type MapObj struct {
	entries []MapEntry
	kt, vt  types.Type
}
type IterObj struct {
	m   int    // map object (0 for string iteration)
	s   SliceV // string iterated
	idx *Term  // next position (64-bit)
	rev *Term  // non-nil (Bool): iterate the map from the last entry to the first when true (map_order option)
	n   int    // number of entries when the iteration started (reverse order walks these)
}

func isPoison(v Val) (Poison, bool) {
	p, ok := v.(Poison)
	return p, ok
}

// ---------- type helpers ----------
func (e *Engine) width(t types.Type) int {
	switch b := t.Underlying().(type) {
	case *types.Basic:
		switch b.Kind() {
		case types.Bool, types.UntypedBool:
			return 0
		case types.Int8, types.Uint8:
			return 8
		case types.Int16, types.Uint16:
			return 16
		case types.Int32, types.Uint32, types.UntypedRune:
			return 32
		case types.Int, types.Uint, types.Int64, types.Uint64, types.Uintptr, types.UntypedInt:
			return 64
		case types.UnsafePointer:
			return -1
		}
	}
	return -1
}

func isSigned(t types.Type) bool {
	if b, ok := t.Underlying().(*types.Basic); ok {
		return b.Info()&types.IsUnsigned == 0 && b.Info()&types.IsInteger != 0
	}
	return false
}

func isString(t types.Type) bool {
	b, ok := t.Underlying().(*types.Basic)
	return ok && b.Info()&types.IsString != 0
}

func isFloat(t types.Type) bool {
	b, ok := t.Underlying().(*types.Basic)
	return ok && b.Info()&(types.IsFloat|types.IsComplex) != 0
}

func (e *Engine) zero(t types.Type) Val {
	switch u := t.Underlying().(type) {
	case *types.Basic:
		w := e.width(t)
		if w == 0 {
			return Scalar{e.b.False()}
		}
		if w > 0 {
			return Scalar{e.b.BV(w, 0)}
		}
		if u.Info()&types.IsString != 0 {
			return e.nilSlice(true)
		}
		if u.Kind() == types.UnsafePointer {
			return Ptr{}
		}
		if isFloat(t) {
			return Poison{"float"}
		}
	case *types.Struct:
		sv := StructV{f: make([]Val, u.NumFields())}
		for i := 0; i < u.NumFields(); i++ {
			sv.f[i] = e.zero(u.Field(i).Type())
		}
		return sv
	case *types.Array:
		n := u.Len()
		av := ArrayV{e: make([]Val, n)}
		if n > 0 {
			z := e.zero(u.Elem())
			for i := range av.e {
				av.e[i] = z
			}
		}
		return av
	case *types.Pointer:
		return Ptr{}
	case *types.Slice:
		return e.nilSlice(false)
	case *types.Interface:
		return IfaceV{}
	case *types.Signature:
		return FuncV{}
	case *types.Map:
		return MapRef{}
	case *types.Chan:
		return ChanV{}
	case *types.Tuple:
		tv := make(TupleV, u.Len())
		for i := range tv {
			tv[i] = e.zero(u.At(i).Type())
		}
		return tv
	}
	return Poison{fmt.Sprintf("zero value of %s", t)}
}

// ---------- merging ----------

// tryMerge merges structurally; ok=false when some leaf cannot be merged without a Union.
// With allowUnion, unmergeable leaves become Unions and it always succeeds.
func (e *Engine) mergeVal(c *Term, a, b Val) Val {
	if c.IsTrue() {
		return a
	}
	if c.IsFalse() {
		return b
	}
	v, _ := e.merge(c, a, b, true)
	return v
}

func sameShapePath(x, y []PathEl) bool {
	if len(x) != len(y) {
		return false
	}
	for i := range x {
		if x[i].field != y[i].field || x[i].n != y[i].n {
			return false
		}
		if x[i].field == -3 && !types.Identical(x[i].typ, y[i].typ) {
			return false
		}
	}
	return true
}

func (e *Engine) samePath(x, y []PathEl) bool {
	if !sameShapePath(x, y) {
		return false
	}
	for i := range x {
		if x[i].field < 0 && x[i].idx != y[i].idx {
			return false
		}
	}
	return true
}

func (e *Engine) merge(c *Term, a, b Val, allowUnion bool) (Val, bool) {
	mkUnion := func() (Val, bool) {
		if !allowUnion {
			return nil, false
		}
		return e.makeUnion(c, a, b), true
	}
	switch x := a.(type) {
	case Scalar:
		y, ok := b.(Scalar)
		if !ok || x.t.w != y.t.w {
			return mkUnion()
		}
		if x.t == y.t {
			return x, true
		}
		return Scalar{e.b.Ite(c, x.t, y.t)}, true
	case StructV:
		y, ok := b.(StructV)
		if !ok || len(x.f) != len(y.f) {
			return mkUnion()
		}
		r := StructV{f: make([]Val, len(x.f))}
		for i := range x.f {
			v, ok := e.merge(c, x.f[i], y.f[i], allowUnion)
			if !ok {
				return nil, false
			}
			r.f[i] = v
		}
		return r, true
	case ArrayV:
		y, ok := b.(ArrayV)
		if !ok || len(x.e) != len(y.e) {
			return mkUnion()
		}
		r := ArrayV{e: make([]Val, len(x.e))}
		for i := range x.e {
			v, ok := e.merge(c, x.e[i], y.e[i], allowUnion)
			if !ok {
				return nil, false
			}
			r.e[i] = v
		}
		return r, true
	case TupleV:
		y, ok := b.(TupleV)
		if !ok || len(x) != len(y) {
			return mkUnion()
		}
		r := make(TupleV, len(x))
		for i := range x {
			v, ok := e.merge(c, x[i], y[i], allowUnion)
			if !ok {
				return nil, false
			}
			r[i] = v
		}
		return r, true
	case SliceV:
		y, ok := b.(SliceV)
		if !ok {
			return mkUnion()
		}
		nx, ny := e.slNil(x), e.slNil(y)
		if x.obj != y.obj {
			// a nil slice merges with anything: take the other's object, keep len/cap 0 and the nil flag
			if x.obj == 0 {
				x = SliceV{y.obj, y.off, x.len, x.cap, y.str, nx, y.base, y.n}
			} else if y.obj == 0 {
				y = SliceV{x.obj, x.off, y.len, y.cap, x.str, ny, x.base, x.n}
			} else {
				return mkUnion()
			}
		}
		if !e.samePath(x.base, y.base) || x.n != y.n {
			return mkUnion()
		}
		return SliceV{x.obj, e.b.Ite(c, x.off, y.off), e.b.Ite(c, x.len, y.len), e.b.Ite(c, x.cap, y.cap), x.str, e.b.Ite(c, nx, ny), x.base, x.n}, true
	case Ptr:
		y, ok := b.(Ptr)
		if !ok || x.obj != y.obj || !sameShapePath(x.path, y.path) {
			return mkUnion()
		}
		p := Ptr{obj: x.obj, path: make([]PathEl, len(x.path))}
		for i := range x.path {
			p.path[i] = x.path[i]
			if x.path[i].field < 0 {
				p.path[i].idx = e.b.Ite(c, x.path[i].idx, y.path[i].idx)
			}
		}
		return p, true
	case IfaceV:
		y, ok := b.(IfaceV)
		if !ok {
			return mkUnion()
		}
		if x.dyn == nil && y.dyn == nil {
			return x, true
		}
		if x.dyn == nil || y.dyn == nil || !types.Identical(x.dyn, y.dyn) {
			return mkUnion()
		}
		v, ok := e.merge(c, x.v, y.v, false)
		if !ok {
			return mkUnion()
		}
		return IfaceV{x.dyn, v}, true
	case FuncV:
		y, ok := b.(FuncV)
		if !ok || x.fn != y.fn || len(x.bind) != len(y.bind) {
			return mkUnion()
		}
		r := FuncV{fn: x.fn, bind: make([]Val, len(x.bind))}
		for i := range x.bind {
			v, ok := e.merge(c, x.bind[i], y.bind[i], false)
			if !ok {
				return mkUnion()
			}
			r.bind[i] = v
		}
		return r, true
	case MapRef:
		y, ok := b.(MapRef)
		if !ok || x.obj != y.obj {
			return mkUnion()
		}
		return x, true
	case IterRef:
		y, ok := b.(IterRef)
		if !ok || x.obj != y.obj {
			return mkUnion()
		}
		return x, true
	case ChanV:
		y, ok := b.(ChanV)
		if !ok || x.obj != y.obj {
			return mkUnion()
		}
		return x, true
	case Poison:
		if _, ok := b.(Poison); ok {
			return x, true
		}
		return mkUnion()
	case *ssa.Builtin:
		if b == a {
			return a, true
		}
		return mkUnion()
	case Union:
		return mkUnion()
	case MapObj:
		y, ok := b.(MapObj)
		if !ok {
			return nil, false
		}
		return e.mergeMapObj(c, x, y)
	case IterObj:
		y, ok := b.(IterObj)
		if !ok || x.m != y.m || x.s.obj != y.s.obj {
			return nil, false
		}
		s, _ := e.merge(c, x.s, y.s, false)
		if s == nil {
			return nil, false
		}
		if x.rev != y.rev || x.n != y.n {
			return nil, false
		}
		return IterObj{m: x.m, s: s.(SliceV), idx: e.b.Ite(c, x.idx, y.idx), rev: x.rev, n: x.n}, true
	case nil:
		if b == nil {
			return nil, true
		}
		return mkUnion()
	}
	if _, ok := b.(Union); ok {
		return mkUnion()
	}
	return mkUnion()
}

func (e *Engine) mergeMapObj(c *Term, x, y MapObj) (Val, bool) {
	n := len(x.entries)
	if len(y.entries) > n {
		n = len(y.entries)
	}
	r := MapObj{kt: x.kt, vt: x.vt, entries: make([]MapEntry, n)}
	for i := 0; i < n; i++ {
		switch {
		case i < len(x.entries) && i < len(y.entries):
			ex, ey := x.entries[i], y.entries[i]
			k := e.mergeVal(c, ex.key, ey.key)
			v := e.mergeVal(c, ex.val, ey.val)
			r.entries[i] = MapEntry{e.b.Ite(c, ex.present, ey.present), k, v}
		case i < len(x.entries):
			ex := x.entries[i]
			r.entries[i] = MapEntry{e.b.And(c, ex.present), ex.key, ex.val}
		default:
			ey := y.entries[i]
			r.entries[i] = MapEntry{e.b.And(e.b.Not(c), ey.present), ey.key, ey.val}
		}
	}
	return r, true
}

// makeUnion builds a flat union of a (under c) and b (under !c), coalescing
// alternatives that merge structurally.
func (e *Engine) makeUnion(c *Term, a, b Val) Val {
	var alts []Alt
	add := func(g *Term, v Val) {
		if g.IsFalse() {
			return
		}
		for i := range alts {
			if m, ok := e.merge(g, v, alts[i].v, false); ok {
				alts[i] = Alt{e.b.Or(alts[i].g, g), m}
				return
			}
		}
		alts = append(alts, Alt{g, v})
	}
	push := func(g *Term, v Val) {
		if u, ok := v.(Union); ok {
			for _, al := range u.alts {
				add(e.b.And(g, al.g), al.v)
			}
		} else {
			add(g, v)
		}
	}
	push(c, a)
	push(e.b.Not(c), b)
	if len(alts) == 1 {
		return alts[0].v
	}
	if len(alts) > e.maxUnion {
		e.maxUnion = len(alts)
	}
	return Union{alts}
}

// mapUnion applies f to each alternative and re-merges the results.
func (e *Engine) mapUnion(u Union, f func(Val) Val) Val {
	var r Val
	for i := len(u.alts) - 1; i >= 0; i-- {
		v := f(u.alts[i].v)
		if r == nil {
			r = v
		} else {
			r = e.mergeVal(u.alts[i].g, v, r)
		}
	}
	return r
}

// ---------- equality ----------

// eqVal returns the term "a == b" for comparable values.
func (e *Engine) eqVal(a, b Val) *Term {
	bb := e.b
	if u, ok := a.(Union); ok {
		r := bb.False()
		for _, al := range u.alts {
			t := e.eqVal(al.v, b)
			if t == nil {
				return nil
			}
			r = bb.Or(r, bb.And(al.g, t))
		}
		return r
	}
	if u, ok := b.(Union); ok {
		r := bb.False()
		for _, al := range u.alts {
			t := e.eqVal(a, al.v)
			if t == nil {
				return nil
			}
			r = bb.Or(r, bb.And(al.g, t))
		}
		return r
	}
	switch x := a.(type) {
	case Scalar:
		y, ok := b.(Scalar)
		if !ok {
			break
		}
		return bb.Eq(x.t, y.t)
	case StructV:
		y, ok := b.(StructV)
		if !ok || len(x.f) != len(y.f) {
			break
		}
		r := bb.True()
		for i := range x.f {
			t := e.eqVal(x.f[i], y.f[i])
			if t == nil {
				return nil
			}
			r = bb.And(r, t)
		}
		return r
	case ArrayV:
		y, ok := b.(ArrayV)
		if !ok || len(x.e) != len(y.e) {
			break
		}
		r := bb.True()
		for i := range x.e {
			t := e.eqVal(x.e[i], y.e[i])
			if t == nil {
				return nil
			}
			r = bb.And(r, t)
		}
		return r
	case Ptr:
		y, ok := b.(Ptr)
		if !ok {
			break
		}
		if x.obj != y.obj || !sameShapePath(x.path, y.path) {
			return bb.False()
		}
		r := bb.True()
		for i := range x.path {
			if x.path[i].field < 0 {
				r = bb.And(r, bb.Eq(x.path[i].idx, y.path[i].idx))
			}
		}
		return r
	case IfaceV:
		y, ok := b.(IfaceV)
		if !ok {
			break
		}
		if x.dyn == nil || y.dyn == nil {
			return bb.Bool(x.dyn == nil && y.dyn == nil)
		}
		if !types.Identical(x.dyn, y.dyn) {
			return bb.False()
		}
		return e.eqVal(x.v, y.v)
	case SliceV:
		y, ok := b.(SliceV)
		if !ok {
			break
		}
		if x.str || y.str {
			return e.strEq(x, y)
		}
		// slices are only comparable to nil
		if y.obj == 0 && y.nl == nil {
			return e.slNil(x)
		}
		if x.obj == 0 && x.nl == nil {
			return e.slNil(y)
		}
	case MapRef:
		y, ok := b.(MapRef)
		if ok {
			return bb.Bool(x.obj == y.obj)
		}
	case ChanV:
		y, ok := b.(ChanV)
		if ok {
			return bb.Bool(x.obj == y.obj)
		}
	case FuncV:
		y, ok := b.(FuncV)
		if ok && (x.fn == nil || y.fn == nil) {
			return bb.Bool(x.fn == nil && y.fn == nil)
		}
	}
	if _, ok := a.(Poison); ok {
		e.curPoison = "eqVal: poisoned operand: " + a.(Poison).why
		return nil
	}
	if _, ok := b.(Poison); ok {
		e.curPoison = "eqVal: poisoned operand: " + b.(Poison).why
		return nil
	}
	e.curPoison = fmt.Sprintf("eqVal: unsupported comparison %s vs %s", describe(a), describe(b))
	return nil
}

// strEq compares two strings byte-wise (lengths may be symbolic; capacities concrete).
func (e *Engine) strEq(x, y SliceV) *Term {
	bb := e.b
	r := bb.Eq(x.len, y.len)
	if r.IsFalse() {
		return r
	}
	if x.obj == y.obj && x.off == y.off {
		return r
	}
	nx, ny := e.maxLen(x), e.maxLen(y)
	n := nx
	if ny < n {
		n = ny
	}
	for i := 0; i < n; i++ {
		it := bb.BV(64, uint64(i))
		in := bb.Ult(it, x.len)
		if in.IsFalse() {
			break
		}
		cx := e.elemAt(x, it)
		cy := e.elemAt(y, it)
		sx, ok1 := cx.(Scalar)
		sy, ok2 := cy.(Scalar)
		if !ok1 || !ok2 {
			e.curPoison = "strEq: non-scalar byte"
			return nil
		}
		r = bb.And(r, bb.Implies(in, bb.Eq(sx.t, sy.t)))
		if r.IsFalse() {
			return r
		}
	}
	return r
}

// slNil is the "slice is nil" condition.
func (e *Engine) slNil(s SliceV) *Term {
	if s.nl != nil {
		return s.nl
	}
	return e.b.Bool(s.obj == 0)
}

func (e *Engine) nilSlice(str bool) SliceV {
	z := e.b.BV(64, 0)
	return SliceV{obj: 0, off: z, len: z, cap: z, str: str}
}
