package main

import (
	"encoding/json"
	"fmt"
	"os"
	"path/filepath"
	"sort"
)

func writeEvidence(sp *Spec, tier string, seed int64, jobs []job, results []*UnitResult, wall, loadS float64, notes []string, validated int) {
	type sample struct {
		Unit        string           `json:"unit"`
		Mode        string           `json:"mode"`
		Cases       map[string]int64 `json:"cases,omitempty"`
		Status      string           `json:"status"`
		Obligations int              `json:"obligations"`
		Discharged  int              `json:"discharged"`
		Queries     []QueryInfo      `json:"queries"`
		Reach       string           `json:"reach_witness"`
		SolverS     float64          `json:"solver_s"`
		WallS       float64          `json:"wall_s"`
		Steps       int              `json:"ssa_instructions_executed"`
		States      int              `json:"symbolic_states"`
		Merges      int              `json:"state_merges"`
		Inconcl     []string         `json:"inconclusive,omitempty"`
		Violated    []string         `json:"violated,omitempty"`
		Witness     map[string]any   `json:"witness_inputs,omitempty"`
	}
	var samples []sample
	states, trans, obls, dis, queries := 0, 0, 0, 0, 0
	solverS := 0.0
	funcs := map[string]bool{}
	stubs := map[string]int{}
	unknown := 0
	viol := 0
	crossN, crossAgree := 0, 0
	for i, r := range results {
		if r == nil {
			continue
		}
		states += r.States
		trans += r.Steps
		obls += r.Obligations
		dis += r.Discharged
		queries += r.Queries
		solverS += r.SolverS
		for _, f := range r.Funcs {
			funcs[f] = true
		}
		for k, v := range r.Stubs {
			stubs[k] += v
		}
		for _, c := range r.Cross {
			crossN++
			if c.Agreed {
				crossAgree++
			}
		}
		if r.Status == "inconclusive" {
			unknown++
		}
		if jobs[i].mode == "main" {
			viol += len(r.Violated)
		}
		s := sample{Unit: r.Unit, Mode: r.Mode, Cases: r.Cases, Status: r.Status, Obligations: r.Obligations, Discharged: r.Discharged,
			Queries: r.QueryLog, Reach: r.Reach, SolverS: r.SolverS, WallS: r.WallS, Steps: r.Steps, States: r.States, Merges: r.Merges, Inconcl: r.Inconcl}
		for _, v := range r.Violated {
			s.Violated = append(s.Violated, v.Msg+" ["+v.Pos+"]")
		}
		if len(samples) < 40 || r.Status != "pass" {
			if r.Witness != nil && len(samples) < 6 {
				s.Witness = map[string]any{"scalars": r.Witness.Scalars, "arrays": r.Witness.Arrays}
			}
			samples = append(samples, s)
		}
	}
	var fl []string
	for f := range funcs {
		fl = append(fl, f)
	}
	sort.Strings(fl)
	if states == 0 {
		states = 1
	}
	if trans == 0 {
		trans = 1
	}
	if len(samples) == 0 {
		samples = append(samples, sample{Unit: "none", Status: "not run"})
	}
	var units []map[string]any
	for _, u := range sp.Units {
		units = append(units, map[string]any{"name": u.Name, "func": u.Func, "what": u.What, "unwind": u.Unwind, "cases": u.Cases, "case_ranges": u.CaseRanges, "tier": u.Tier})
	}
	cov := map[string]any{
		"states":                        states,
		"transitions":                   trans,
		"traces_validated_against_impl": validated,
		"samples":                       samples,
		"obligations":                   obls,
		"discharged":                    dis,
		"inconclusive_units":            unknown,
		"solver_queries":                queries,
		"solver_time_s":                 solverS,
		"load_and_ssa_build_s":          loadS,
		"jobs":                          len(results),
		"functions_encoded":             fl,
		"stubs_and_models_used":         stubs,
		"units":                         units,
		"bounds":                        sp.Bounds,
		"outside_claim":                 sp.Outside,
		"trusted_base":                  sp.Trusted,
		"cross_solver_queries":          crossN,
		"cross_solver_agreements":       crossAgree,
		"notes":                         notes,
		"explanation":                   "states = symbolic states created (after join-point merging); transitions = SSA instructions executed symbolically; traces_validated = solver models (reachability witnesses, counterexamples) re-run natively against the real build with agreeing outcome; every sample lists the SMT queries discharged for one unit/case.",
		"checker_cmd":                   fmt.Sprintf("./check %s --tier %s", sp.ID, tier),
		"exhaustive":                    false,
	}
	ev := map[string]any{
		"property_id": sp.ID,
		"tier":        tier,
		"seed":        seed,
		"level":       "model_checking",
		"coverage":    cov,
		"assumptions": append(append([]string{}, sp.Assumptions...), "bounded: see coverage.bounds; outside: see coverage.outside_claim"),
		"wall_s":      wall,
		"violations":  viol,
	}
	os.MkdirAll(filepath.Join(verifDir, "evidence"), 0o755)
	data, _ := json.MarshalIndent(ev, "", " ")
	os.WriteFile(filepath.Join(verifDir, "evidence", sp.ID+".json"), data, 0o644)
}

func cmdSelfTest() int {
	b := NewBuilder()
	s := NewSolver(10000)
	defer s.Close()
	x := b.Var(8, "x")
	y := b.Var(8, "y")
	// x+y == y+x is valid
	q := s.Check(b, []*Term{b.Not(b.Eq(b.Add(x, y), b.Add(y, x)))}, "comm")
	if q.Status != "unsat" {
		fmt.Println("selftest: commutativity not unsat:", q.Status)
		return 1
	}
	q = s.Check(b, []*Term{b.Eq(b.Add(x, b.BV(8, 1)), b.BV(8, 0))}, "wrap")
	if q.Status != "sat" || q.Env.Eval(x) != 255 {
		fmt.Println("selftest: wrap query wrong:", q.Status)
		return 1
	}
	fmt.Println("selftest ok")
	return 0
}
