package main

import (
	"fmt"
	"go/constant"
	"go/token"
	"go/types"
	"os"
	"sort"
	"strings"

	"golang.org/x/tools/go/ssa"
)

type deferred struct {
	fn   Val // FuncV, *ssa.Builtin or intrinsic marker
	args []Val
	call *ssa.Defer
}

type Frame struct {
	fn      *ssa.Function
	fnID    int
	blk     *ssa.BasicBlock
	prev    *ssa.BasicBlock
	ip      int
	sub     int
	locals  map[ssa.Value]Val
	iters   map[int]int
	call    ssa.Value // call instruction in the caller to bind the result to (nil: discard)
	defers  []deferred
	inDefer bool // frame was started by the caller's RunDefers: returning does not advance the caller
	stack   []int
}

type State struct {
	id     int
	frames []*Frame
	heap   map[int]cell
	pc     []*Term
	atJoin bool
	names  map[string]int
	tm     []int
	locks  map[int]int // lock monitor: object id -> hold count
	lastNow *Term      // last value returned by time.Now on this path
}

type oblKind int

const (
	oblAssert oblKind = iota
	oblPanic
	oblUnwind
	oblPoison
)

type Obligation struct {
	kind oblKind
	t    *Term // satisfiable => violated
	msg  string
	pos  string
	pcs  []*Term // path condition conjuncts (for independence slicing)
	bad  *Term   // negated condition (nil: the path condition itself is the obligation)
}

func (e *Engine) newObl(kind oblKind, st *State, bad *Term, msg, pos string) {
	full := e.conj(st.pc)
	if bad != nil {
		full = e.b.And(full, bad)
	}
	e.obls = append(e.obls, Obligation{kind: kind, t: full, msg: msg, pos: pos, pcs: append([]*Term(nil), st.pc...), bad: bad})
}

type namedInput struct {
	name string
	t    *Term
}

type Engine struct {
	b         *Builder
	solver    *Solver
	prog      *ssa.Program
	info      map[*ssa.Function]*fnInfo
	fnIDs     map[*ssa.Function]int
	live      []*State
	cur       *State
	initState *State
	nobj      int
	nstamp    int
	nstate    int
	inputs    []namedInput
	inputSet  map[string]*Term
	varRange  map[*Term][2]uint64
	obls      []Obligation
	finals    []*Term
	observes  []observation
	globals   map[*ssa.Global]int
	strObjs   map[string]int
	cfg       *UnitCfg
	cases     map[string]int64
	curPoison string
	maxUnion  int
	// stats
	steps, merges, forks, splits, maxLive, finished int
	fnSeen                                        map[*ssa.Function]bool
	initDone                                      map[*ssa.Package]bool
	initWritten                                   map[int]bool
	initFailed                                    map[*ssa.Package]string
	inInit                                        bool
	stubsUsed                                     map[string]int
	deadline                                      int
	aborted                                       string
	mode                                          string // "main" or finding id being reproduced
	openFindings                                  map[string]bool
	ufLog                                         []ufRecord
	trace                                         bool
	initFinal                                     *State
	initPkg                                       *ssa.Package
	initSteps                                     int
	pendingSpawn                                  []*State
	inputDecls                                    map[string]*inputDecl
	inputOrder                                    []string
	knownSeen                                     map[string]bool
	nAsserts                                      int
	harnessPkg                                    *ssa.Package
	errType                                       types.Type
	lockEvents                                    int
	uniq                                          []uniqEntry
	parGroups                                     int
	allocSub                                      int
	unwrittenGlobals                              map[int]string
	nowSeq                                        int
	ambiguousInput                                string
	mapOrderSeq                                   int
	forkSites                                     map[string]int
	rangeConds                                    map[*Term]*Term
	feasQueries                                   int
	rangeCache                                    map[*Term]rangeRes
	live_                                         map[*ssa.Function]*liveInfo
	copyMerges                                    int
	siteIDs                                       map[string]int
}

type observation struct {
	name string
	pc   *Term
	v    *Term
}

func (e *Engine) fnID(fn *ssa.Function) int {
	if id, ok := e.fnIDs[fn]; ok {
		return id
	}
	id := len(e.fnIDs) + 1
	e.fnIDs[fn] = id
	return id
}

func (e *Engine) conj(ts []*Term) *Term { return e.b.AndN(ts) }

// addPC appends a conjunct to the path condition.
func (e *Engine) addPC(st *State, c *Term) {
	if c.IsTrue() {
		return
	}
	st.pc = append(st.pc, c)
}

func (e *Engine) posStr(pos token.Pos) string {
	if !pos.IsValid() {
		return "?"
	}
	p := e.prog.Fset.Position(pos)
	return fmt.Sprintf("%s:%d", strings.TrimPrefix(p.Filename, "/repo/"), p.Line)
}

// guard records the implicit obligation that cond holds (else the real code panics).
func (e *Engine) guard(st *State, cond *Term, what string, pos token.Pos) {
	if cond.IsTrue() {
		return
	}
	if e.inInit {
		return
	}
	where := e.posStr(pos)
	if !pos.IsValid() && len(st.frames) > 0 {
		where = "in " + st.frames[len(st.frames)-1].fn.String()
	}
	e.newObl(oblPanic, st, e.b.Not(cond), "panic: "+what, where)
	e.addPC(st, cond)
}

// poisonPath ends a path that needs an unsupported construct; it is inconclusive unless infeasible.
func (e *Engine) poisonPath(st *State, why string) {
	if e.inInit {
		e.aborted = why
		st.frames = nil
		return
	}
	where := ""
	if len(st.frames) > 0 {
		f := st.frames[len(st.frames)-1]
		where = f.fn.String()
		if f.blk != nil && f.ip < len(f.blk.Instrs) {
			where += " @ " + e.posStr(f.blk.Instrs[f.ip].Pos())
		}
	}
	e.newObl(oblPoison, st, nil, "unsupported: "+why, where)
	st.frames = nil
}

func cloneState(st *State) *State {
	n := &State{heap: make(map[int]cell, len(st.heap)+8), pc: append([]*Term(nil), st.pc...), lastNow: st.lastNow}
	for k, v := range st.heap {
		n.heap[k] = v
	}
	if st.names != nil {
		n.names = make(map[string]int, len(st.names))
		for k, v := range st.names {
			n.names[k] = v
		}
	}
	if st.locks != nil {
		n.locks = make(map[int]int, len(st.locks))
		for k, v := range st.locks {
			n.locks[k] = v
		}
	}
	n.frames = make([]*Frame, len(st.frames))
	for i, f := range st.frames {
		nf := *f
		nf.locals = make(map[ssa.Value]Val, len(f.locals)+4)
		for k, v := range f.locals {
			nf.locals[k] = v
		}
		nf.iters = make(map[int]int, len(f.iters))
		for k, v := range f.iters {
			nf.iters[k] = v
		}
		nf.defers = append([]deferred(nil), f.defers...)
		nf.stack = append([]int(nil), f.stack...)
		n.frames[i] = &nf
	}
	return n
}

func (e *Engine) fork(st *State) *State {
	o := cloneState(st)
	e.nstate++
	o.id = e.nstate
	e.forks++
	return o
}

// ---------- constants / operands ----------
func (e *Engine) constVal(c *ssa.Const) Val {
	t := c.Type()
	if c.Value == nil {
		return e.zero(t)
	}
	w := e.width(t)
	switch {
	case w == 0:
		return Scalar{e.b.Bool(constant.BoolVal(c.Value))}
	case w > 0:
		iv := constant.ToInt(c.Value)
		if iv.Kind() != constant.Int {
			return Poison{"non-integer constant " + c.String()}
		}
		if v, ok := constant.Uint64Val(iv); ok {
			return Scalar{e.b.BV(w, v)}
		}
		v, _ := constant.Int64Val(iv)
		return Scalar{e.b.BV(w, uint64(v))}
	}
	if isString(t) {
		return e.constString(constant.StringVal(c.Value))
	}
	if isFloat(t) {
		return Poison{"float constant"}
	}
	return Poison{"const: unsupported " + c.String()}
}

func (e *Engine) globalObj(g *ssa.Global) int {
	id, ok := e.globals[g]
	if !ok {
		et := g.Type().(*types.Pointer).Elem()
		e.nobj++
		id = e.nobj
		e.nstamp++
		e.initState.heap[id] = cell{e.zero(et), e.nstamp}
		e.globals[g] = id
	}
	return id
}

func (e *Engine) get(st *State, f *Frame, v ssa.Value) Val {
	switch x := v.(type) {
	case *ssa.Const:
		return e.constVal(x)
	case *ssa.Global:
		if x.Pkg != nil && !e.inInit {
			if why, bad := e.initFailed[x.Pkg]; bad {
				id := e.globalObj(x)
				if !e.initWritten[id] {
					// reads are poisoned until the harness itself stores to the global
					if e.unwrittenGlobals == nil {
						e.unwrittenGlobals = map[int]string{}
					}
					e.unwrittenGlobals[id] = "global " + x.String() + " (package init incomplete: " + why + ")"
				}
			}
		}
		return Ptr{obj: e.globalObj(x)}
	case *ssa.Function:
		return FuncV{fn: x}
	case *ssa.Builtin:
		return x
	}
	val, ok := f.locals[v]
	if !ok {
		return Poison{fmt.Sprintf("undefined value %s in %s", v.Name(), f.fn)}
	}
	return val
}

// scalar returns the term of a scalar operand; ok=false for Poison/other.
func scalarOf(v Val) (*Term, bool) {
	s, ok := v.(Scalar)
	if !ok {
		return nil, false
	}
	return s.t, true
}

// ---------- block transfer ----------
func (e *Engine) enter(st *State, to *ssa.BasicBlock) {
	f := st.frames[len(st.frames)-1]
	fi := e.finfo(f.fn)
	from := f.blk
	if from != nil && fi.isBack[[2]int{from.Index, to.Index}] {
		f.iters[to.Index]++
	}
	if len(f.iters) > 0 {
		keep := fi.loopsOf[to]
		for h := range f.iters {
			found := false
			for _, k := range keep {
				if k == h {
					found = true
				}
			}
			if !found {
				delete(f.iters, h)
			}
		}
	}
	nphi := 0
	if from != nil {
		predIdx := -1
		for i, p := range to.Preds {
			if p == from {
				predIdx = i
			}
		}
		var vals []Val
		for _, in := range to.Instrs {
			phi, ok := in.(*ssa.Phi)
			if !ok {
				break
			}
			vals = append(vals, e.get(st, f, phi.Edges[predIdx]))
			nphi++
		}
		for i := 0; i < nphi; i++ {
			f.locals[to.Instrs[i].(*ssa.Phi)] = vals[i]
		}
	}
	f.prev, f.blk, f.ip, f.sub = from, to, nphi, 0
	if len(to.Preds) >= 2 {
		st.atJoin = true
	}
}

// unwindBound returns the bound for loops of fn.
func (e *Engine) unwindBound(fn *ssa.Function) int {
	if e.cfg != nil {
		if n, ok := e.cfg.Unwind[fn.String()]; ok {
			return n
		}
		if n, ok := e.cfg.Unwind[fn.Name()]; ok {
			return n
		}
		if n, ok := e.cfg.Unwind["default"]; ok {
			return n
		}
	}
	return 40
}

// ---------- arithmetic ----------
func (e *Engine) arith(op token.Token, x, y *Term, signed bool) *Term {
	b := e.b
	switch op {
	case token.ADD:
		return b.Bin(OpAdd, x, y)
	case token.SUB:
		return b.Bin(OpSub, x, y)
	case token.MUL:
		return b.Bin(OpMul, x, y)
	case token.AND:
		return b.Bin(OpBAnd, x, y)
	case token.OR:
		return b.Bin(OpBOr, x, y)
	case token.XOR:
		return b.Bin(OpBXor, x, y)
	case token.AND_NOT:
		return b.Bin(OpBAnd, x, b.BNot(y))
	case token.QUO:
		if signed {
			return b.Bin(OpSdiv, x, y)
		}
		return b.Bin(OpUdiv, x, y)
	case token.REM:
		if signed {
			return b.Bin(OpSrem, x, y)
		}
		return b.Bin(OpUrem, x, y)
	case token.SHL, token.SHR:
		w := x.w
		var cnt, big *Term
		if y.w > w {
			big = b.Not(b.Ult(y, b.BV(y.w, uint64(w))))
			cnt = b.Extract(y, w-1, 0)
		} else {
			cnt = b.Zext(y, w)
			big = b.Not(b.Ult(cnt, b.BV(w, uint64(w))))
		}
		if op == token.SHL {
			return b.Ite(big, b.BV(w, 0), b.Bin(OpShl, x, cnt))
		}
		if signed {
			return b.Ite(big, b.Bin(OpAshr, x, b.BV(w, uint64(w-1))), b.Bin(OpAshr, x, cnt))
		}
		return b.Ite(big, b.BV(w, 0), b.Bin(OpLshr, x, cnt))
	}
	return nil
}

func (e *Engine) cmpScalar(op token.Token, x, y *Term, signed bool) *Term {
	b := e.b
	switch op {
	case token.EQL:
		return b.Eq(x, y)
	case token.NEQ:
		return b.Not(b.Eq(x, y))
	}
	if x.w == 0 {
		return nil
	}
	switch op {
	case token.LSS:
		if signed {
			return b.Slt(x, y)
		}
		return b.Ult(x, y)
	case token.LEQ:
		if signed {
			return b.Sle(x, y)
		}
		return b.Ule(x, y)
	case token.GTR:
		if signed {
			return b.Slt(y, x)
		}
		return b.Ult(y, x)
	case token.GEQ:
		if signed {
			return b.Sle(y, x)
		}
		return b.Ule(y, x)
	}
	return nil
}

// splitOn forks the state on the alternatives of a Union held in local v.
// The first alternative reuses st. Returns the additional states.
func (e *Engine) splitOn(st *State, f *Frame, v ssa.Value, u Union) []*State {
	e.splits++
	var out []*State
	for i := 1; i < len(u.alts); i++ {
		o := e.fork(st)
		of := o.frames[len(o.frames)-1]
		of.locals[v] = u.alts[i].v
		e.addPC(o, u.alts[i].g)
		out = append(out, o)
	}
	f.locals[v] = u.alts[0].v
	e.addPC(st, u.alts[0].g)
	return out
}

type action int

const (
	actNext  action = iota // advance ip
	actMoved               // control already transferred (ip set)
	actDead                // state ended
	actAgain               // re-execute the same instruction (after a split)
)

// run executes instructions of st until it yields (join point) or ends.
func (e *Engine) run(st *State) (spawned []*State, done bool) {
	e.cur = st
	for {
		if len(st.frames) == 0 {
			return spawned, true
		}
		if st.atJoin {
			return spawned, false
		}
		f := st.frames[len(st.frames)-1]
		in := f.blk.Instrs[f.ip]
		e.steps++
		e.allocSub = 0
		if e.deadline > 0 && e.steps > e.deadline {
			e.aborted = fmt.Sprintf("step budget %d exhausted", e.deadline)
			return spawned, true
		}
		if e.trace {
			fmt.Fprintf(os.Stderr, "[s%d d%d] %s: %s\n", st.id, len(st.frames), f.fn.Name(), in)
		}
		if e.steps%20000 == 0 && os.Getenv("GOSMT_PROGRESS") != "" {
			fmt.Fprintf(os.Stderr, "steps=%d live=%d forks=%d merges=%d splits=%d terms=%d obls=%d fn=%s\n", e.steps, len(e.live), e.forks, e.merges, e.splits, e.b.n, len(e.obls), f.fn)
			hist := map[string]int{}
			for _, l := range e.live {
				k := ""
				for _, fr := range l.frames {
					k += fmt.Sprintf("%s:%d.%d%v/", fr.fn.Name(), fr.blk.Index, fr.ip, fr.iters)
				}
				if l.atJoin {
					k += " J"
				}
				hist[k]++
			}
			type kv struct {
				k string
				v int
			}
			var kvs []kv
			for k, v := range hist {
				kvs = append(kvs, kv{k, v})
			}
			sort.Slice(kvs, func(i, j int) bool { return kvs[i].v > kvs[j].v })
			for i := 0; i < len(kvs) && i < 6; i++ {
				fmt.Fprintf(os.Stderr, "   %5d  %s\n", kvs[i].v, kvs[i].k)
			}
		}
		act, more := e.exec(st, f, in)
		spawned = append(spawned, more...)
		switch act {
		case actNext:
			f.ip++
			f.sub = 0
		case actDead:
			return spawned, true
		}
	}
}

func (e *Engine) poisonOperand(vs ...Val) (Poison, bool) {
	for _, v := range vs {
		if p, ok := v.(Poison); ok {
			return p, true
		}
	}
	return Poison{}, false
}

func (e *Engine) exec(st *State, f *Frame, in ssa.Instruction) (action, []*State) {
	b := e.b
	switch x := in.(type) {
	case *ssa.DebugRef:
	case *ssa.Alloc:
		et := x.Type().(*types.Pointer).Elem()
		id := e.alloc(st, e.zero(et))
		if !x.Heap {
			f.stack = append(f.stack, id)
		}
		f.locals[x] = Ptr{obj: id}
	case *ssa.BinOp:
		return e.execBinOp(st, f, x)
	case *ssa.UnOp:
		a := e.get(st, f, x.X)
		if p, ok := a.(Poison); ok {
			f.locals[x] = p
			break
		}
		switch x.Op {
		case token.MUL:
			e.viewGuard(st, a, x.Pos())
			f.locals[x] = e.load(st, a, x.Pos())
		case token.NOT:
			t, ok := scalarOf(a)
			if !ok {
				f.locals[x] = Poison{"! on non-scalar"}
				break
			}
			f.locals[x] = Scalar{b.Not(t)}
		case token.XOR:
			t, _ := scalarOf(a)
			f.locals[x] = Scalar{b.BNot(t)}
		case token.SUB:
			t, ok := scalarOf(a)
			if !ok {
				f.locals[x] = Poison{"neg on non-scalar"}
				break
			}
			f.locals[x] = Scalar{b.Neg(t)}
		case token.ARROW:
			f.locals[x] = Poison{"channel receive"}
			if x.CommaOk {
				f.locals[x] = TupleV{Poison{"channel receive"}, Poison{"channel receive"}}
			}
		default:
			f.locals[x] = Poison{"unop " + x.Op.String()}
		}
	case *ssa.Convert:
		cv := e.get(st, f, x.X)
		if u, ok := cv.(Union); ok {
			if _, isPtr := u.alts[0].v.(Ptr); !isPtr {
				if _, isConst := x.X.(*ssa.Const); !isConst {
					return actAgain, e.splitOn(st, f, x.X, u)
				}
			}
		}
		f.locals[x] = e.convert(st, cv, x.X.Type(), x.Type())
	case *ssa.ChangeType:
		f.locals[x] = e.get(st, f, x.X)
	case *ssa.ChangeInterface:
		f.locals[x] = e.get(st, f, x.X)
	case *ssa.MultiConvert:
		f.locals[x] = Poison{"MultiConvert"}
	case *ssa.MakeInterface:
		f.locals[x] = IfaceV{dyn: x.X.Type(), v: e.get(st, f, x.X)}
	case *ssa.TypeAssert:
		a := e.get(st, f, x.X)
		if u, ok := a.(Union); ok {
			return actAgain, e.splitOn(st, f, x.X, u)
		}
		if p, ok := a.(Poison); ok {
			if x.CommaOk {
				f.locals[x] = TupleV{p, p}
			} else {
				f.locals[x] = p
			}
			break
		}
		iv, ok := a.(IfaceV)
		if !ok {
			f.locals[x] = Poison{fmt.Sprintf("TypeAssert on %T", a)}
			break
		}
		var okc bool
		var res Val
		if _, isIface := x.AssertedType.Underlying().(*types.Interface); isIface {
			okc = iv.dyn != nil && types.AssertableTo(x.AssertedType.Underlying().(*types.Interface), iv.dyn) && types.Implements(iv.dyn, x.AssertedType.Underlying().(*types.Interface))
			res = iv
		} else {
			okc = iv.dyn != nil && types.Identical(iv.dyn, x.AssertedType)
			res = iv.v
		}
		if x.CommaOk {
			if !okc {
				res = e.zero(x.AssertedType)
			}
			f.locals[x] = TupleV{res, Scalar{b.Bool(okc)}}
		} else {
			if !okc {
				e.guard(st, b.False(), "interface conversion: "+x.AssertedType.String(), x.Pos())
				return actDead, nil
			}
			f.locals[x] = res
		}
	case *ssa.Extract:
		t := e.get(st, f, x.Tuple)
		switch tv := t.(type) {
		case TupleV:
			f.locals[x] = tv[x.Index]
		case Poison:
			f.locals[x] = tv
		case Union:
			f.locals[x] = e.mapUnion(tv, func(v Val) Val {
				if t2, ok := v.(TupleV); ok {
					return t2[x.Index]
				}
				return Poison{"extract"}
			})
		default:
			f.locals[x] = Poison{fmt.Sprintf("Extract from %T", t)}
		}
	case *ssa.Field:
		a := e.get(st, f, x.X)
		switch sv := a.(type) {
		case StructV:
			f.locals[x] = sv.f[x.Field]
		case Poison:
			f.locals[x] = sv
		default:
			f.locals[x] = Poison{fmt.Sprintf("Field of %T", a)}
		}
	case *ssa.FieldAddr:
		a := e.get(st, f, x.X)
		if p, ok := a.(Poison); ok {
			f.locals[x] = p
			break
		}
		alts, ok := e.ptrAlts(a)
		if !ok {
			f.locals[x] = Poison{fmt.Sprintf("FieldAddr of %T", a)}
			break
		}
		e.nilGuard(st, alts, "field address", x.Pos())
		var r Val
		for i := len(alts) - 1; i >= 0; i-- {
			p := alts[i].v.(Ptr)
			if p.obj == 0 {
				continue
			}
			np := Ptr{obj: p.obj, path: append(append(make([]PathEl, 0, len(p.path)+1), p.path...), PathEl{field: x.Field})}
			if r == nil {
				r = np
			} else {
				r = e.mergeVal(alts[i].g, np, r)
			}
		}
		if r == nil {
			return actDead, nil
		}
		f.locals[x] = r
	case *ssa.IndexAddr:
		return e.execIndexAddr(st, f, x)
	case *ssa.Index:
		base := e.get(st, f, x.X)
		iv := e.get(st, f, x.Index)
		if p, ok := e.poisonOperand(base, iv); ok {
			f.locals[x] = p
			break
		}
		it, _ := scalarOf(iv)
		if u, ok := base.(Union); ok {
			if _, isConst := x.X.(*ssa.Const); !isConst {
				return actAgain, e.splitOn(st, f, x.X, u)
			}
		}
		idx := b.Resize(it, 64, isSigned(x.Index.Type()))
		switch bv := base.(type) {
		case ArrayV:
			e.guard(st, b.Ult(idx, b.BV(64, uint64(len(bv.e)))), "index out of range", x.Pos())
			f.locals[x] = e.getPath(bv, []PathEl{{field: -1, idx: idx}})
		case SliceV: // string index
			e.guard(st, b.Ult(idx, bv.len), "string index out of range", x.Pos())
			f.locals[x] = e.elemAt(bv, idx)
		default:
			f.locals[x] = Poison{fmt.Sprintf("Index of %T", base)}
		}
	case *ssa.Lookup:
		return e.execLookup(st, f, x)
	case *ssa.Slice:
		return e.execSlice(st, f, x)
	case *ssa.Store:
		e.viewGuard(st, e.get(st, f, x.Addr), x.Pos())
		e.store(st, e.get(st, f, x.Addr), e.get(st, f, x.Val), x.Pos())
		if len(st.frames) == 0 {
			return actDead, nil
		}
	case *ssa.MakeSlice:
		lv, cv := e.get(st, f, x.Len), e.get(st, f, x.Cap)
		if p, ok := e.poisonOperand(lv, cv); ok {
			f.locals[x] = p
			break
		}
		ln, _ := scalarOf(lv)
		cp, _ := scalarOf(cv)
		ln, cp = b.Resize(ln, 64, true), b.Resize(cp, 64, true)
		n := -1
		if cp.IsConst() {
			n = int(cp.val)
		} else if _, h, ok := e.termRange(cp, 0); ok && h <= 1<<16 {
			n = int(h)
		}
		if n < 0 || n > 1<<20 {
			// symbolic capacity without a syntactic bound: model up to max_alloc elements; larger requests are
			// an inconclusive condition (must be unreachable), not a pass
			n = 64
			if e.cfg != nil && e.cfg.MaxAlloc > 0 {
				n = e.cfg.MaxAlloc
			}
			tooBig := b.Not(b.Ule(cp, b.BV(64, uint64(n))))
			e.newObl(oblPoison, st, tooBig, fmt.Sprintf("make([]T, n) with n above the modelled maximum %d", n), e.posStr(x.Pos()))
			e.addPC(st, b.Not(tooBig))
		}
		e.guard(st, b.And(b.Sle(b.BV(64, 0), ln), b.Sle(ln, cp)), "makeslice: len out of range", x.Pos())
		et := x.Type().Underlying().(*types.Slice).Elem()
		z := e.zero(et)
		elems := make([]Val, n)
		for i := range elems {
			elems[i] = z
		}
		sl := e.newArray(st, elems, false)
		sl.len, sl.cap = ln, cp
		f.locals[x] = sl
	case *ssa.MakeMap:
		mt := x.Type().Underlying().(*types.Map)
		id := e.alloc(st, MapObj{kt: mt.Key(), vt: mt.Elem()})
		f.locals[x] = MapRef{id}
	case *ssa.MapUpdate:
		return e.execMapUpdate(st, f, x)
	case *ssa.MakeClosure:
		fn := x.Fn.(*ssa.Function)
		fv := FuncV{fn: fn}
		for _, bnd := range x.Bindings {
			fv.bind = append(fv.bind, e.get(st, f, bnd))
		}
		f.locals[x] = fv
	case *ssa.MakeChan:
		id := e.alloc(st, StructV{})
		f.locals[x] = ChanV{id}
	case *ssa.Range:
		a := e.get(st, f, x.X)
		switch v := a.(type) {
		case MapRef:
			io := IterObj{m: v.obj, idx: b.BV(64, 0), s: e.nilSlice(true)}
			if e.cfg != nil && e.cfg.MapOrder && v.obj != 0 {
				// Go leaves the iteration order of a map unspecified: a fresh engine-internal boolean picks
				// first-to-last or last-to-first for this range statement
				if mo, ok := e.objVal(st, v.obj).(MapObj); ok && len(mo.entries) > 1 {
					e.mapOrderSeq++
					io.rev = e.declScalar(fmt.Sprintf("map.order@%d", e.mapOrderSeq), 0)
					io.n = len(mo.entries)
				}
			}
			id := e.alloc(st, io)
			f.locals[x] = IterRef{id}
		case SliceV:
			id := e.alloc(st, IterObj{m: 0, s: v, idx: b.BV(64, 0)})
			f.locals[x] = IterRef{id}
		case Union:
			return actAgain, e.splitOn(st, f, x.X, v)
		default:
			f.locals[x] = Poison{fmt.Sprintf("Range over %T", a)}
		}
	case *ssa.Next:
		return e.execNext(st, f, x)
	case *ssa.Call:
		return e.call(st, f, x, x.Common(), false)
	case *ssa.Defer:
		c := x.Common()
		d := deferred{call: x}
		if c.IsInvoke() {
			// resolve now
			recv := e.get(st, f, c.Value)
			if u, ok := recv.(Union); ok {
				return actAgain, e.splitOn(st, f, c.Value, u)
			}
			iv, ok := recv.(IfaceV)
			if !ok || iv.dyn == nil {
				e.poisonPath(st, "defer invoke on nil/unknown interface")
				return actDead, nil
			}
			fn := e.lookupMethod(iv.dyn, c.Method)
			if fn == nil {
				e.poisonPath(st, "defer invoke: method not found "+c.Method.Name())
				return actDead, nil
			}
			d.fn = FuncV{fn: fn}
			d.args = append(d.args, iv.v)
		} else {
			d.fn = e.get(st, f, c.Value)
		}
		for _, a := range c.Args {
			d.args = append(d.args, e.get(st, f, a))
		}
		f.defers = append(f.defers, d)
	case *ssa.RunDefers:
		if len(f.defers) == 0 {
			break
		}
		d := f.defers[len(f.defers)-1]
		f.defers = f.defers[:len(f.defers)-1]
		f.sub++
		return e.invokeValue(st, f, nil, d.fn, d.args, d.call.Pos(), true)
	case *ssa.Go:
		if e.cfg != nil && e.cfg.IgnoreGo {
			break
		}
		e.poisonPath(st, "go statement")
		return actDead, nil
	case *ssa.Send:
		e.poisonPath(st, "channel send")
		return actDead, nil
	case *ssa.Select:
		if !x.Blocking {
			// non-blocking select: model "nothing ready" (default case)
			tv := TupleV{Scalar{b.BV(64, ^uint64(0))}, Scalar{b.False()}}
			for _, s := range x.States {
				if s.Dir == types.RecvOnly {
					tv = append(tv, e.zero(s.Chan.Type().Underlying().(*types.Chan).Elem()))
				}
			}
			f.locals[x] = tv
			break
		}
		e.poisonPath(st, "blocking select")
		return actDead, nil
	case *ssa.Panic:
		if e.inInit {
			e.aborted = "panic in init"
			return actDead, nil
		}
		msg := "explicit panic"
		if mi, ok := x.X.(*ssa.MakeInterface); ok {
			if c, ok := mi.X.(*ssa.Const); ok && c.Value != nil && c.Value.Kind() == constant.String {
				msg += ": " + constant.StringVal(c.Value)
			}
		}
		e.newObl(oblPanic, st, nil, "panic: "+msg, e.posStr(x.Pos()))
		return actDead, nil
	case *ssa.Jump:
		e.enter(st, f.blk.Succs[0])
		return e.checkUnwind(st, f)
	case *ssa.If:
		cv := e.get(st, f, x.Cond)
		c, ok := scalarOf(cv)
		if !ok {
			why := "branch on unsupported value " + describe(cv)
			if p, ok := cv.(Poison); ok {
				why = "branch on: " + p.why
			}
			e.poisonPath(st, why)
			return actDead, nil
		}
		tb, fb := f.blk.Succs[0], f.blk.Succs[1]
		if c.IsConst() {
			if c.val == 1 {
				e.enter(st, tb)
			} else {
				e.enter(st, fb)
			}
			return e.checkUnwind(st, f)
		}
		if e.forkSites != nil {
			e.forkSites[f.fn.Name()+":"+e.posStr(x.Pos())]++
			if len(e.forkSites) < 12 && e.forkSites[f.fn.Name()+":"+e.posStr(x.Pos())] == 1 {
				fmt.Fprintf(os.Stderr, "FORK in %s on %s\n", f.fn.Name(), termStr(c, 6))
			}
		}
		o := e.fork(st)
		e.addPC(o, b.Not(c))
		e.enter(o, fb)
		e.addPC(st, c)
		e.enter(st, tb)
		var sp []*State
		if a, _ := e.checkUnwind(o, o.frames[len(o.frames)-1]); a != actDead {
			sp = append(sp, o)
		}
		a, _ := e.checkUnwind(st, f)
		return a, sp
	case *ssa.Return:
		return e.execReturn(st, f, x)
	case *ssa.SliceToArrayPointer:
		a := e.get(st, f, x.X)
		sv, ok := a.(SliceV)
		if !ok {
			f.locals[x] = Poison{fmt.Sprintf("SliceToArrayPointer of %T", a)}
			break
		}
		n := int(x.Type().Underlying().(*types.Pointer).Elem().Underlying().(*types.Array).Len())
		e.guard(st, b.Ule(b.BV(64, uint64(n)), sv.len), "slice to array pointer: length too short", x.Pos())
		if sv.obj == 0 {
			f.locals[x] = Ptr{}
			break
		}
		path := append(append([]PathEl(nil), sv.base...), PathEl{field: -2, idx: sv.off, n: n})
		f.locals[x] = Ptr{obj: sv.obj, path: path}
	default:
		e.poisonPath(st, fmt.Sprintf("unsupported instruction %T", in))
		return actDead, nil
	}
	return actNext, nil
}

// checkUnwind enforces the unwinding bound after a block transfer.
func (e *Engine) checkUnwind(st *State, f *Frame) (action, []*State) {
	if len(f.iters) == 0 {
		return actMoved, nil
	}
	bound := e.unwindBound(f.fn)
	for _, k := range f.iters {
		if k > bound {
			if !e.inInit {
				e.newObl(oblUnwind, st, nil, fmt.Sprintf("unwinding bound %d exceeded", bound), f.fn.String())
			} else {
				e.aborted = "loop bound in init"
			}
			st.frames = nil
			return actDead, nil
		}
	}
	return actMoved, nil
}

func (e *Engine) execReturn(st *State, f *Frame, x *ssa.Return) (action, []*State) {
	var rv Val
	switch len(x.Results) {
	case 0:
	case 1:
		rv = e.get(st, f, x.Results[0])
	default:
		tv := TupleV{}
		for _, r := range x.Results {
			tv = append(tv, e.get(st, f, r))
		}
		rv = tv
	}
	for _, id := range f.stack {
		delete(st.heap, id)
	}
	st.frames = st.frames[:len(st.frames)-1]
	if len(st.frames) == 0 {
		e.finished++
		if !e.inInit {
			e.finals = append(e.finals, e.conj(st.pc))
		} else {
			e.initFinal = st
		}
		return actDead, nil
	}
	caller := st.frames[len(st.frames)-1]
	if f.inDefer {
		// resume the caller's RunDefers (same instruction)
		st.atJoin = true
		return actMoved, nil
	}
	if f.call != nil && rv != nil {
		caller.locals[f.call] = rv
	}
	caller.ip++
	caller.sub = 0
	// states returning from different return sites (or different callees) meet here
	st.atJoin = true
	return actMoved, nil
}

func (e *Engine) execBinOp(st *State, f *Frame, x *ssa.BinOp) (action, []*State) {
	b := e.b
	a, c := e.get(st, f, x.X), e.get(st, f, x.Y)
	if p, ok := e.poisonOperand(a, c); ok {
		f.locals[x] = p
		return actNext, nil
	}
	if x.Op != token.EQL && x.Op != token.NEQ {
		if u, ok := a.(Union); ok {
			if _, isConst := x.X.(*ssa.Const); !isConst {
				return actAgain, e.splitOn(st, f, x.X, u)
			}
		}
		if u, ok := c.(Union); ok {
			if _, isConst := x.Y.(*ssa.Const); !isConst {
				return actAgain, e.splitOn(st, f, x.Y, u)
			}
		}
	}
	switch x.Op {
	case token.EQL, token.NEQ:
		e.curPoison = ""
		t := e.eqVal(a, c)
		if t == nil {
			f.locals[x] = Poison{e.curPoison}
			return actNext, nil
		}
		if x.Op == token.NEQ {
			t = b.Not(t)
		}
		f.locals[x] = Scalar{t}
		return actNext, nil
	}
	if sa, ok := a.(SliceV); ok && sa.str {
		sc, ok := c.(SliceV)
		if !ok {
			f.locals[x] = Poison{"string op with non-string"}
			return actNext, nil
		}
		switch x.Op {
		case token.ADD:
			f.locals[x] = e.strConcat(st, sa, sc)
		case token.LSS, token.LEQ, token.GTR, token.GEQ:
			lt, eq := e.strLess(sa, sc)
			if lt == nil {
				f.locals[x] = Poison{"string compare"}
				return actNext, nil
			}
			switch x.Op {
			case token.LSS:
				f.locals[x] = Scalar{lt}
			case token.LEQ:
				f.locals[x] = Scalar{b.Or(lt, eq)}
			case token.GTR:
				f.locals[x] = Scalar{b.Not(b.Or(lt, eq))}
			case token.GEQ:
				f.locals[x] = Scalar{b.Not(lt)}
			}
		default:
			f.locals[x] = Poison{"string op " + x.Op.String()}
		}
		return actNext, nil
	}
	ta, ok1 := scalarOf(a)
	tc, ok2 := scalarOf(c)
	if !ok1 || !ok2 {
		f.locals[x] = Poison{fmt.Sprintf("binop %s on %T,%T", x.Op, a, c)}
		return actNext, nil
	}
	signed := isSigned(x.X.Type())
	switch x.Op {
	case token.LSS, token.LEQ, token.GTR, token.GEQ:
		f.locals[x] = Scalar{e.cmpScalar(x.Op, ta, tc, signed)}
	case token.LAND:
		f.locals[x] = Scalar{b.And(ta, tc)}
	case token.LOR:
		f.locals[x] = Scalar{b.Or(ta, tc)}
	default:
		if ta.w == 0 {
			switch x.Op {
			case token.AND:
				f.locals[x] = Scalar{b.And(ta, tc)}
			case token.OR:
				f.locals[x] = Scalar{b.Or(ta, tc)}
			case token.XOR:
				f.locals[x] = Scalar{b.Not(b.Eq(ta, tc))}
			default:
				f.locals[x] = Poison{"bool op " + x.Op.String()}
			}
			return actNext, nil
		}
		if x.Op == token.QUO || x.Op == token.REM {
			e.guard(st, b.Not(b.Eq(tc, b.BV(tc.w, 0))), "integer divide by zero", x.Pos())
		}
		if x.Op == token.SHL || x.Op == token.SHR {
			if isSigned(x.Y.Type()) {
				e.guard(st, b.Sle(b.BV(tc.w, 0), tc), "negative shift amount", x.Pos())
			}
		}
		r := e.arith(x.Op, ta, tc, signed)
		if r == nil {
			f.locals[x] = Poison{"arith " + x.Op.String()}
		} else {
			f.locals[x] = Scalar{r}
		}
	}
	return actNext, nil
}

func (e *Engine) execIndexAddr(st *State, f *Frame, x *ssa.IndexAddr) (action, []*State) {
	b := e.b
	base := e.get(st, f, x.X)
	iv := e.get(st, f, x.Index)
	if p, ok := e.poisonOperand(base, iv); ok {
		f.locals[x] = p
		return actNext, nil
	}
	it, ok := scalarOf(iv)
	if !ok {
		f.locals[x] = Poison{"IndexAddr index"}
		return actNext, nil
	}
	idx := b.Resize(it, 64, isSigned(x.Index.Type()))
	switch bv := base.(type) {
	case SliceV:
		e.guard(st, b.Ult(idx, bv.len), "index out of range", x.Pos())
		if bv.obj == 0 {
			return actDead, nil
		}
		f.locals[x] = e.elemPtr(bv, idx)
	case Ptr, Union:
		if u, ok := base.(Union); ok {
			if _, isPtr := u.alts[0].v.(Ptr); !isPtr {
				return actAgain, e.splitOn(st, f, x.X, u)
			}
		}
		alts, ok := e.ptrAlts(base)
		if !ok {
			f.locals[x] = Poison{"IndexAddr base"}
			return actNext, nil
		}
		n := x.X.Type().Underlying().(*types.Pointer).Elem().Underlying().(*types.Array).Len()
		e.nilGuard(st, alts, "index", x.Pos())
		e.guard(st, b.Ult(idx, b.BV(64, uint64(n))), "index out of range", x.Pos())
		var r Val
		for i := len(alts) - 1; i >= 0; i-- {
			p := alts[i].v.(Ptr)
			if p.obj == 0 {
				continue
			}
			np := Ptr{obj: p.obj, path: append(append(make([]PathEl, 0, len(p.path)+1), p.path...), PathEl{field: -1, idx: idx})}
			if r == nil {
				r = np
			} else {
				r = e.mergeVal(alts[i].g, np, r)
			}
		}
		if r == nil {
			return actDead, nil
		}
		f.locals[x] = r
	default:
		f.locals[x] = Poison{fmt.Sprintf("IndexAddr base %T", base)}
	}
	return actNext, nil
}

func (e *Engine) execSlice(st *State, f *Frame, x *ssa.Slice) (action, []*State) {
	b := e.b
	base := e.get(st, f, x.X)
	if p, ok := base.(Poison); ok {
		f.locals[x] = p
		return actNext, nil
	}
	var sv SliceV
	switch bv := base.(type) {
	case SliceV:
		sv = bv
	case Ptr:
		n := int(x.X.Type().Underlying().(*types.Pointer).Elem().Underlying().(*types.Array).Len())
		if bv.obj == 0 {
			e.guard(st, b.False(), "nil pointer dereference (slice of nil array pointer)", x.Pos())
			return actDead, nil
		}
		nn := b.BV(64, uint64(n))
		// a view path element at the end becomes an offset
		if k := len(bv.path); k > 0 && bv.path[k-1].field == -2 {
			sv = SliceV{obj: bv.obj, base: bv.path[:k-1], n: -1, off: bv.path[k-1].idx, len: nn, cap: nn}
			// backing array length: read it
			if av, ok := e.getPath(e.objVal(st, bv.obj), sv.base).(ArrayV); ok {
				sv.n = len(av.e)
			} else {
				f.locals[x] = Poison{"slice of array view"}
				return actNext, nil
			}
		} else {
			sv = SliceV{obj: bv.obj, base: bv.path, n: n, off: b.BV(64, 0), len: nn, cap: nn}
		}
	case Union:
		return actAgain, e.splitOn(st, f, x.X, bv)
	default:
		f.locals[x] = Poison{fmt.Sprintf("Slice of %T", base)}
		return actNext, nil
	}
	low, high, max := b.BV(64, 0), sv.len, sv.cap
	var ops []Val
	for _, o := range []ssa.Value{x.Low, x.High, x.Max} {
		if o != nil {
			ops = append(ops, e.get(st, f, o))
		}
	}
	if p, ok := e.poisonOperand(ops...); ok {
		f.locals[x] = p
		return actNext, nil
	}
	if x.Low != nil {
		t, _ := scalarOf(e.get(st, f, x.Low))
		low = b.Resize(t, 64, isSigned(x.Low.Type()))
	}
	if x.High != nil {
		t, _ := scalarOf(e.get(st, f, x.High))
		high = b.Resize(t, 64, isSigned(x.High.Type()))
	}
	if sv.str {
		max = sv.len
		e.guard(st, b.Ule(high, sv.len), "slice bounds out of range (string high)", x.Pos())
	} else if x.Max != nil {
		t, _ := scalarOf(e.get(st, f, x.Max))
		max = b.Resize(t, 64, isSigned(x.Max.Type()))
		e.guard(st, b.Ule(max, sv.cap), "slice bounds out of range (max > cap)", x.Pos())
		e.guard(st, b.Ule(high, max), "slice bounds out of range (high > max)", x.Pos())
	} else {
		e.guard(st, b.Ule(high, sv.cap), "slice bounds out of range (high > cap)", x.Pos())
	}
	e.guard(st, b.Ule(low, high), "slice bounds out of range (low > high)", x.Pos())
	r := SliceV{obj: sv.obj, base: sv.base, n: sv.n, off: b.Add(sv.off, low), len: b.Sub(high, low), cap: b.Sub(max, low), str: sv.str, nl: sv.nl}
	f.locals[x] = r
	return actNext, nil
}

// ---------- conversions ----------
func (e *Engine) convert(st *State, a Val, from, to types.Type) Val {
	b := e.b
	if p, ok := a.(Poison); ok {
		return p
	}
	wf, wt := e.width(from), e.width(to)
	if wt > 0 && wf > 0 {
		t, ok := scalarOf(a)
		if !ok {
			return Poison{"convert: non-scalar: " + describe(a)}
		}
		return Scalar{b.Resize(t, wt, isSigned(from))}
	}
	if isFloat(from) || isFloat(to) {
		return Poison{"float conversion"}
	}
	fu, tu := from.Underlying(), to.Underlying()
	// string <-> []byte
	if isString(to) {
		if sl, ok := fu.(*types.Slice); ok {
			if bt, ok := sl.Elem().Underlying().(*types.Basic); ok && bt.Kind() == types.Uint8 {
				sv, ok := a.(SliceV)
				if !ok {
					return Poison{"string(x) of " + describe(a)}
				}
				return e.copySlice(st, sv, true)
			}
			return Poison{"string([]rune)"}
		}
		if wf > 0 {
			// string(rune): ASCII only
			t, _ := scalarOf(a)
			t = b.Resize(t, 64, isSigned(from))
			if t.IsConst() && t.val < 0x80 {
				return e.constString(string(rune(t.val)))
			}
			return Poison{"string(rune) of symbolic/non-ASCII value"}
		}
		if isString(from) {
			return a
		}
	}
	if sl, ok := tu.(*types.Slice); ok && isString(from) {
		if bt, ok := sl.Elem().Underlying().(*types.Basic); ok && bt.Kind() == types.Uint8 {
			sv, ok := a.(SliceV)
			if !ok {
				return Poison{"[]byte(x) of " + describe(a)}
			}
			return e.copySlice(st, sv, false)
		}
		return Poison{"[]rune(string)"}
	}
	// unsafe.Pointer -> *T over a byte array element: typed little-endian view
	if bt, ok := fu.(*types.Basic); ok && bt.Kind() == types.UnsafePointer {
		if pt, ok := tu.(*types.Pointer); ok {
			if p, ok := a.(Ptr); ok && p.obj != 0 && len(p.path) > 0 && p.path[len(p.path)-1].field == -1 {
				if et, ok := pt.Elem().Underlying().(*types.Basic); !ok || et.Kind() != types.Uint8 {
					if e.isByteArrayAt(st, p) {
						np := Ptr{obj: p.obj, path: append([]PathEl(nil), p.path...)}
						last := np.path[len(np.path)-1]
						np.path[len(np.path)-1] = PathEl{field: -3, idx: last.idx, typ: pt.Elem()}
						return np
					}
				}
			}
		}
	}
	// pointer <-> unsafe.Pointer, and other representation-preserving conversions
	switch a.(type) {
	case Ptr, Union:
		return a
	}
	if _, ok := fu.(*types.Pointer); ok {
		return a
	}
	if bt, ok := fu.(*types.Basic); ok && bt.Kind() == types.UnsafePointer {
		return a
	}
	if bt, ok := tu.(*types.Basic); ok && bt.Kind() == types.UnsafePointer {
		return a
	}
	return Poison{fmt.Sprintf("convert %s -> %s", from, to)}
}

// copySlice makes a fresh copy of a byte slice/string (capacity = concrete bound of the length).
func (e *Engine) copySlice(st *State, s SliceV, str bool) Val {
	b := e.b
	if s.obj == 0 {
		r := e.nilSlice(str)
		if !str {
			// []byte("") is non-nil but empty; nil-ness of the result is rarely observable: keep non-nil empty
			r = e.newArray(st, nil, false)
		}
		return r
	}
	n := e.maxLen(s)
	elems := make([]Val, n)
	for i := 0; i < n; i++ {
		elems[i] = e.elemAt(s, b.BV(64, uint64(i)))
	}
	r := e.newArray(st, elems, str)
	r.len, r.cap = s.len, s.len
	return r
}

// strConcat concatenates two strings.
func (e *Engine) strConcat(st *State, x, y SliceV) Val {
	b := e.b
	if x.len.IsConst() && x.len.val == 0 {
		return y
	}
	if y.len.IsConst() && y.len.val == 0 {
		return x
	}
	nx, ny := e.maxLen(x), e.maxLen(y)
	elems := make([]Val, nx+ny)
	for i := 0; i < nx+ny; i++ {
		it := b.BV(64, uint64(i))
		var fromX, fromY Val
		if i < nx {
			fromX = e.elemAt(x, it)
		}
		if x.len.IsConst() {
			if i < nx {
				elems[i] = fromX
			} else {
				elems[i] = e.elemAt(y, b.BV(64, uint64(i-nx)))
			}
			continue
		}
		// symbolic split point
		yi := b.Sub(it, x.len)
		if ny > 0 {
			fromY = e.getPath(e.objVal(st, y.obj), e.elemPtr(y, e.clampIdx(yi, ny)).path)
		}
		switch {
		case fromX == nil:
			elems[i] = fromY
		case fromY == nil:
			elems[i] = fromX
		default:
			elems[i] = e.mergeVal(b.Ult(it, x.len), fromX, fromY)
		}
	}
	r := e.newArray(st, elems, true)
	r.len = b.Add(x.len, y.len)
	r.cap = r.len
	return r
}

// clampIdx keeps an index term inside [0,n) (values outside are irrelevant to the caller).
func (e *Engine) clampIdx(i *Term, n int) *Term {
	return e.b.Ite(e.b.Ult(i, e.b.BV(64, uint64(n))), i, e.b.BV(64, 0))
}

// strLess returns (x < y, x == y) lexicographically.
func (e *Engine) strLess(x, y SliceV) (*Term, *Term) {
	b := e.b
	nx, ny := e.maxLen(x), e.maxLen(y)
	n := nx
	if ny < n {
		n = ny
	}
	// process from the end: lt_i = (i>=lenx || i>=leny) ? lenx<leny : (x[i]<y[i] || (x[i]==y[i] && lt_{i+1}))
	lt := b.Ult(x.len, y.len)
	for i := n - 1; i >= 0; i-- {
		it := b.BV(64, uint64(i))
		in := b.And(b.Ult(it, x.len), b.Ult(it, y.len))
		cx, ok1 := e.elemAt(x, it).(Scalar)
		cy, ok2 := e.elemAt(y, it).(Scalar)
		if !ok1 || !ok2 {
			return nil, nil
		}
		lt = b.Ite(in, b.Or(b.Ult(cx.t, cy.t), b.And(b.Eq(cx.t, cy.t), lt)), b.Ult(x.len, y.len))
	}
	e.curPoison = ""
	eq := e.strEq(x, y)
	if eq == nil {
		return nil, nil
	}
	return lt, eq
}

// isByteArrayAt reports whether p (ending in an element index) points into an array of bytes.
func (e *Engine) isByteArrayAt(st *State, p Ptr) bool {
	v := e.getPath(e.objVal(st, p.obj), p.path[:len(p.path)-1])
	av, ok := v.(ArrayV)
	if !ok || len(av.e) == 0 {
		return false
	}
	s, ok := av.e[0].(Scalar)
	return ok && s.t.w == 8
}

// viewGuard records the obligation that a typed view access stays inside the byte array.
func (e *Engine) viewGuard(st *State, pv Val, pos token.Pos) {
	p, ok := pv.(Ptr)
	if !ok || p.obj == 0 {
		return
	}
	for i, pe := range p.path {
		if pe.field != -3 {
			continue
		}
		av, ok := e.getPath(e.objVal(st, p.obj), p.path[:i]).(ArrayV)
		if !ok {
			return
		}
		off, t, ok := e.viewResolve(pe.idx, pe.typ, p.path[i+1:])
		if !ok {
			return
		}
		sz := uint64(sizes.Sizeof(t))
		n := uint64(len(av.e))
		if sz > n {
			e.guard(st, e.b.False(), "unsafe typed access larger than the buffer", pos)
			return
		}
		e.guard(st, e.b.Ule(off, e.b.BV(64, n-sz)), "unsafe typed access beyond the end of the buffer", pos)
		return
	}
}

func describe(v Val) string {
	switch x := v.(type) {
	case Union:
		s := "Union{"
		for _, a := range x.alts {
			s += describe(a.v) + "; "
		}
		return s + "}"
	case Poison:
		return "Poison(" + x.why + ")"
	case ArrayV:
		return fmt.Sprintf("Array[%d]", len(x.e))
	}
	return fmt.Sprintf("%T", v)
}

func termStr(t *Term, d int) string {
	switch t.op {
	case OpConst:
		return fmt.Sprintf("%d", t.val)
	case OpVar:
		return t.name
	}
	if d == 0 {
		return "..."
	}
	s := "(" + opName[t.op]
	if t.op == OpExtract {
		s = fmt.Sprintf("(extract[%d:%d]", t.p1, t.p2)
	}
	if t.op == OpZext {
		s = "(zext"
	}
	if t.op == OpSext {
		s = "(sext"
	}
	if t.op == OpUF {
		s = "(" + t.name
	}
	for _, a := range t.args {
		s += " " + termStr(a, d-1)
	}
	return s + ")"
}
