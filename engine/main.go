package main

import (
	"encoding/json"
	"flag"
	"fmt"
	"os"
	"path/filepath"
	"runtime"
	"sort"
	"strconv"
	"strings"
	"sync"
	"time"

	"golang.org/x/tools/go/packages"
	"golang.org/x/tools/go/ssa"
	"golang.org/x/tools/go/ssa/ssautil"
)

// repoDir is the tree the encoding is regenerated from; GOSMT_REPO overrides it (used to try a check against a scratch
// worktree carrying a seeded change, so that /repo itself stays untouched)
var repoDir = "/repo"

type UnitCfg struct {
	Name       string              `json:"name"`
	Func       string              `json:"func"`
	Unwind     map[string]int      `json:"unwind,omitempty"`
	Cases      map[string][]int64  `json:"cases,omitempty"`       // explicit case values
	CaseRanges map[string][2]int64 `json:"case_ranges,omitempty"` // inclusive ranges
	Thorough   *UnitCfg            `json:"thorough,omitempty"`    // overrides for the thorough tier
	Tier       string              `json:"tier,omitempty"`        // "thorough": unit only runs in the thorough tier
	Stubs      map[string]string   `json:"stubs,omitempty"`
	Inits      []string            `json:"inits,omitempty"`
	IgnoreGo   bool                `json:"ignore_go,omitempty"`
	TimeoutS   int                 `json:"timeout_s,omitempty"`
	MaxSteps   int                 `json:"max_steps,omitempty"`
	Findings   []string            `json:"findings,omitempty"` // known-finding region ids used by this unit
	What       string              `json:"what,omitempty"`
	NoNative   bool                `json:"no_native,omitempty"` // native replay impossible (stubs replace real code)
	MaxAlloc   int                 `json:"max_alloc,omitempty"`
	ClockStepNs int64              `json:"clock_step_ns,omitempty"` // >0: consecutive time.Now readings differ by at most this much, except across time.Sleep(d), which adds d
	MapOrder   bool                `json:"map_order,omitempty"` // every range over a map runs first-to-last or last-to-first (fresh boolean per range statement)
	LoopFeas   bool                `json:"loop_feasibility,omitempty"` // ask the solver once per loop wave whether the wave is feasible
}

type Spec struct {
	ID          string    `json:"id"`
	Pkg         string    `json:"pkg"`   // directory of the package under /repo ("." for root)
	Files       []string  `json:"files"` // harness files (in the property directory) overlaid into the package
	Units       []UnitCfg `json:"units"`
	Assumptions []string  `json:"assumptions"`
	Trusted     []string  `json:"trusted_base"`
	Outside     []string  `json:"outside_claim"`
	Bounds      []string  `json:"bounds"`
	ExtraPkgs   []string  `json:"extra_pkgs,omitempty"`
	Models      []string  `json:"models,omitempty"` // contract models replacing third-party modules ("bart")
	Parallel    int       `json:"parallel,omitempty"` // max concurrent jobs (heavy explorations)
}

// modelFlags prepares an alternate go.mod that replaces the modelled third-party modules by the contract models
// under /verif/models (files inside GOMODCACHE cannot be overlaid) and returns the build flags selecting it.
func modelFlags(sp *Spec) ([]string, error) {
	if len(sp.Models) == 0 {
		return nil, nil
	}
	dir := filepath.Join(verifDir, "build", "modfile-"+sp.ID)
	if err := os.MkdirAll(dir, 0o755); err != nil {
		return nil, err
	}
	mod, err := os.ReadFile(filepath.Join(repoDir, "go.mod"))
	if err != nil {
		return nil, err
	}
	sum, _ := os.ReadFile(filepath.Join(repoDir, "go.sum"))
	text := string(mod) + "\n"
	for _, m := range sp.Models {
		switch m {
		case "bart":
			text += "replace github.com/gaissmai/bart => " + filepath.Join(verifDir, "models", "bart") + "\n"
		default:
			return nil, fmt.Errorf("unknown model %q", m)
		}
	}
	if err := os.WriteFile(filepath.Join(dir, "go.mod"), []byte(text), 0o644); err != nil {
		return nil, err
	}
	os.WriteFile(filepath.Join(dir, "go.sum"), sum, 0o644)
	return []string{"-modfile=" + filepath.Join(dir, "go.mod")}, nil
}

type Finding struct {
	Kind     string `json:"kind"` // "finding" (open) or "fixed"
	Property string `json:"property"`
	ID       string `json:"id"`
	What     string `json:"what"`
	Commit   string `json:"commit,omitempty"`
}

type job struct {
	unit  *UnitCfg
	cases map[string]int64
	mode  string
}

var verifDir = "/verif"

func main() {
	if len(os.Args) < 2 {
		fmt.Fprintln(os.Stderr, "usage: gosmt check <ID> [--tier quick|thorough] [--unit name] [--replay file]")
		os.Exit(2)
	}
	if d := os.Getenv("VERIF_DIR"); d != "" {
		verifDir = d
	}
	if d := os.Getenv("GOSMT_REPO"); d != "" {
		repoDir = d
	}
	switch os.Args[1] {
	case "check":
		os.Exit(cmdCheck(os.Args[2:]))
	case "selftest":
		os.Exit(cmdSelfTest())
	default:
		fmt.Fprintln(os.Stderr, "unknown command", os.Args[1])
		os.Exit(2)
	}
}

func loadSpec(id string) (*Spec, string, error) {
	dir := filepath.Join(verifDir, "props", id)
	data, err := os.ReadFile(filepath.Join(dir, "spec.json"))
	if err != nil {
		return nil, dir, err
	}
	var sp Spec
	if err := json.Unmarshal(data, &sp); err != nil {
		return nil, dir, fmt.Errorf("spec.json: %v", err)
	}
	return &sp, dir, nil
}

func loadFindings() []Finding {
	var fs []Finding
	data, err := os.ReadFile(filepath.Join(verifDir, "known_findings.json"))
	if err != nil {
		return nil
	}
	json.Unmarshal(data, &fs)
	return fs
}

func pkgNameOf(dir string) string {
	// read the package clause of any non-test go file in the directory
	ents, _ := os.ReadDir(dir)
	for _, en := range ents {
		n := en.Name()
		if strings.HasSuffix(n, ".go") && !strings.HasSuffix(n, "_test.go") {
			data, _ := os.ReadFile(filepath.Join(dir, n))
			for _, l := range strings.Split(string(data), "\n") {
				l = strings.TrimSpace(l)
				if strings.HasPrefix(l, "package ") {
					return strings.Fields(l)[1]
				}
			}
		}
	}
	return "main"
}

const rtDecls = `// Code generated by gosmt; harness API (body-less: intercepted by the symbolic executor).
package %s

func verifU8(name string) uint8
func verifU16(name string) uint16
func verifU32(name string) uint32
func verifU64(name string) uint64
func verifBool(name string) bool
func verifInt(name string, lo, hi int) int
func verifBytes(name string, n int) []byte
func verifWords(name string, n int) []uint64
func verifU32s(name string, n int) []uint32
func verifString(name string, maxLen int) string
func verifCase(name string) int
func verifAssume(c bool)
func verifAssert(c bool, msg string)
func verifKnown(id string, c bool) bool
func verifObserve(name string, v uint64)
func verifUF(name string, outLen int, args ...[]byte) []byte
`

type loaded struct {
	prog *ssa.Program
	pkg  *ssa.Package
}

func loadProgram(sp *Spec, propDir string) (*loaded, error) {
	pkgDir := filepath.Join(repoDir, sp.Pkg)
	overlay := map[string][]byte{}
	pname := pkgNameOf(pkgDir)
	overlay[filepath.Join(pkgDir, "zz_verif_rt.go")] = []byte(fmt.Sprintf(rtDecls, pname))
	for _, f := range sp.Files {
		data, err := os.ReadFile(filepath.Join(propDir, f))
		if err != nil {
			return nil, err
		}
		overlay[filepath.Join(pkgDir, "zz_verif_"+filepath.Base(f))] = data
	}
	flags, err := modelFlags(sp)
	if err != nil {
		return nil, err
	}
	cfg := &packages.Config{Mode: packages.LoadAllSyntax, Dir: repoDir, Overlay: overlay, BuildFlags: flags,
		Env: append(os.Environ(), "GOFLAGS=-mod=mod", "GOPROXY=off", "GOSUMDB=off", "GOTOOLCHAIN=local", "CGO_ENABLED=0")}
	pats := []string{"./" + sp.Pkg}
	pats = append(pats, sp.ExtraPkgs...)
	pkgs, err := packages.Load(cfg, pats...)
	if err != nil {
		return nil, err
	}
	nerr := 0
	packages.Visit(pkgs, nil, func(p *packages.Package) {
		for _, e := range p.Errors {
			// body-less function declarations are reported by the type checker as "missing function body"
			if strings.Contains(e.Msg, "missing function body") {
				continue
			}
			fmt.Fprintln(os.Stderr, "load error:", e)
			nerr++
		}
	})
	if nerr > 0 {
		return nil, fmt.Errorf("%d load errors", nerr)
	}
	prog, spkgs := ssautil.AllPackages(pkgs, ssa.InstantiateGenerics)
	prog.Build()
	if spkgs[0] == nil {
		return nil, fmt.Errorf("no SSA package for %s", sp.Pkg)
	}
	return &loaded{prog, spkgs[0]}, nil
}

func expandCases(u *UnitCfg) []map[string]int64 {
	type dim struct {
		name string
		vals []int64
	}
	var dims []dim
	for n, vs := range u.Cases {
		dims = append(dims, dim{n, vs})
	}
	for n, r := range u.CaseRanges {
		var vs []int64
		for v := r[0]; v <= r[1]; v++ {
			vs = append(vs, v)
		}
		dims = append(dims, dim{n, vs})
	}
	sort.Slice(dims, func(i, j int) bool { return dims[i].name < dims[j].name })
	out := []map[string]int64{{}}
	for _, d := range dims {
		var next []map[string]int64
		for _, m := range out {
			for _, v := range d.vals {
				nm := map[string]int64{}
				for k, x := range m {
					nm[k] = x
				}
				nm[d.name] = v
				next = append(next, nm)
			}
		}
		out = next
	}
	return out
}

func effective(u UnitCfg, tier string) *UnitCfg {
	if tier == "thorough" && u.Thorough != nil {
		t := *u.Thorough
		r := u
		if t.Unwind != nil {
			r.Unwind = t.Unwind
		}
		if t.Cases != nil {
			r.Cases = t.Cases
		}
		if t.CaseRanges != nil {
			r.CaseRanges = t.CaseRanges
		}
		if t.TimeoutS != 0 {
			r.TimeoutS = t.TimeoutS
		}
		if t.MaxSteps != 0 {
			r.MaxSteps = t.MaxSteps
		}
		return &r
	}
	return &u
}

func caseStr(m map[string]int64) string {
	var ks []string
	for k := range m {
		ks = append(ks, k)
	}
	sort.Strings(ks)
	var parts []string
	for _, k := range ks {
		parts = append(parts, fmt.Sprintf("%s=%d", k, m[k]))
	}
	return strings.Join(parts, ",")
}

func runJob(ld *loaded, sp *Spec, j job, open map[string]bool, tier string, parGroups int) (res *UnitResult) {
	t0 := time.Now()
	res = &UnitResult{Unit: j.unit.Name, Cases: j.cases, Mode: j.mode}
	defer func() {
		if r := recover(); r != nil {
			buf := make([]byte, 4096)
			n := runtime.Stack(buf, false)
			res.Status = "inconclusive"
			res.Inconcl = append(res.Inconcl, fmt.Sprintf("engine panic: %v\n%s", r, buf[:n]))
			res.WallS = time.Since(t0).Seconds()
		}
	}()
	to := j.unit.TimeoutS
	if to == 0 {
		to = 60
		if tier == "thorough" {
			to = 600
		}
	}
	e := NewEngine(ld.prog, j.unit, to*1000)
	defer e.Close()
	e.harnessPkg = ld.pkg
	e.parGroups = parGroups
	e.cases = j.cases
	e.mode = j.mode
	e.openFindings = open
	e.solver.tag = fmt.Sprintf("%s-%s-%s", sp.ID, j.unit.Name, sanitize(caseStr(j.cases)))
	e.solver.dumpDir = os.Getenv("GOSMT_DUMP")
	e.solver.crossOn = tier == "thorough" || os.Getenv("GOSMT_CROSS") != ""
	fn := ld.pkg.Func(j.unit.Func)
	if fn == nil {
		res.Status = "inconclusive"
		res.Inconcl = append(res.Inconcl, "harness function not found: "+j.unit.Func)
		return res
	}
	e.runInits([]*ssa.Function{fn})
	res.InitSteps = e.initSteps
	e.steps = 0
	e.forks, e.merges, e.splits, e.maxLive = 0, 0, 0, 0
	e.fnSeen = map[*ssa.Function]bool{fn: true}
	if j.unit.MaxSteps > 0 {
		e.deadline = j.unit.MaxSteps
	} else {
		e.deadline = 20000000
	}
	st := &State{heap: map[int]cell{}, id: 1}
	e.nstate = 1
	st.frames = []*Frame{{fn: fn, fnID: e.fnID(fn), locals: map[ssa.Value]Val{}, iters: map[int]int{}}}
	e.enter(st, fn.Blocks[0])
	st.atJoin = false
	if os.Getenv("GOSMT_FORKS") != "" {
		e.forkSites = map[string]int{}
	}
	e.Explore(st)
	if e.forkSites != nil {
		type kv struct {
			k string
			v int
		}
		var kvs []kv
		for k, v := range e.forkSites {
			kvs = append(kvs, kv{k, v})
		}
		sort.Slice(kvs, func(i, j int) bool { return kvs[i].v > kvs[j].v })
		for i := 0; i < len(kvs) && i < 25; i++ {
			fmt.Fprintf(os.Stderr, "  forks %5d at %s\n", kvs[i].v, kvs[i].k)
		}
	}
	res.Steps, res.States, res.Forks, res.Merges, res.Splits, res.MaxLive, res.Terms = e.steps, e.nstate, e.forks, e.merges, e.splits, e.maxLive, e.b.n
	res.Paths = e.finished
	if e.aborted != "" {
		res.Inconcl = append(res.Inconcl, "exploration aborted: "+e.aborted)
	}
	if e.ambiguousInput != "" {
		res.Inconcl = append(res.Inconcl, "harness input "+e.ambiguousInput+" is requested a path-dependent number of times; use distinct names")
	}
	e.discharge(res, j.unit.Name, j.unit.Func, 4)
	res.Queries, res.SolverS = e.solver.Queries+e.feasQueries, e.solver.Time.Seconds()
	res.Funcs = e.funcsEncoded()
	res.Stubs = e.stubsUsed
	for id := range e.knownSeen {
		res.KnownSeen = append(res.KnownSeen, id)
	}
	sort.Strings(res.KnownSeen)
	switch {
	case len(res.Violated) > 0:
		res.Status = "violation"
	case len(res.Inconcl) > 0:
		res.Status = "inconclusive"
	case res.Reach != "sat":
		res.Status = "inconclusive"
		res.Inconcl = append(res.Inconcl, "vacuous: reachability witness is "+res.Reach)
	default:
		res.Status = "pass"
	}
	res.WallS = time.Since(t0).Seconds()
	return res
}

func cmdCheck(args []string) int {
	fs := flag.NewFlagSet("check", flag.ExitOnError)
	tier := fs.String("tier", "", "quick|thorough")
	unitSel := fs.String("unit", "", "run only this unit")
	replay := fs.String("replay", "", "replay file")
	noNative := fs.Bool("no-native", false, "skip native validation/replay")
	par := fs.Int("j", 0, "parallel jobs")
	if len(args) < 1 {
		return 2
	}
	id := args[0]
	fs.Parse(args[1:])
	if *tier == "" {
		*tier = os.Getenv("VERIF_TIER")
	}
	if *tier != "thorough" {
		*tier = "quick"
	}
	seed := int64(0)
	if s := os.Getenv("VERIF_SEED"); s != "" {
		seed, _ = strconv.ParseInt(s, 10, 64)
	}
	t0 := time.Now()
	sp, propDir, err := loadSpec(id)
	if err != nil {
		fmt.Fprintln(os.Stderr, "spec:", err)
		return 2
	}
	if *replay != "" {
		return cmdReplay(sp, propDir, *replay)
	}
	findings := loadFindings()
	open := map[string]bool{}
	findingText := map[string]string{}
	for _, f := range findings {
		if f.Property == id && f.Kind == "finding" {
			open[f.ID] = true
			findingText[f.ID] = f.What
		}
	}
	ld, err := loadProgram(sp, propDir)
	if err != nil {
		fmt.Fprintln(os.Stderr, "load:", err)
		writeEvidence(sp, *tier, seed, nil, nil, time.Since(t0).Seconds(), 0, []string{"load failed: " + err.Error()}, 0)
		return 2
	}
	loadS := time.Since(t0).Seconds()
	var jobs []job
	for i := range sp.Units {
		u := sp.Units[i]
		if *unitSel != "" && u.Name != *unitSel {
			continue
		}
		if u.Tier == "thorough" && *tier != "thorough" {
			continue
		}
		eu := effective(u, *tier)
		for _, cs := range expandCases(eu) {
			jobs = append(jobs, job{eu, cs, "main"})
		}
		// known-finding reproduction runs
		for _, fid := range eu.Findings {
			if open[fid] {
				for _, cs := range expandCases(eu) {
					jobs = append(jobs, job{eu, cs, fid})
				}
			}
		}
	}
	n := *par
	if n == 0 {
		n = runtime.NumCPU()
		if n > 16 {
			n = 16
		}
		if sp.Parallel > 0 && sp.Parallel < n {
			n = sp.Parallel
		}
	}
	parGroups := 1
	if len(jobs) > 0 && n/len(jobs) > 1 {
		parGroups = n / len(jobs)
		if parGroups > 5 {
			parGroups = 5
		}
	}
	results := make([]*UnitResult, len(jobs))
	var wg sync.WaitGroup
	sem := make(chan struct{}, n)
	for i := range jobs {
		wg.Add(1)
		sem <- struct{}{}
		go func(i int) {
			defer wg.Done()
			defer func() { <-sem }()
			results[i] = runJob(ld, sp, jobs[i], open, *tier, parGroups)
			r := results[i]
			fmt.Fprintf(os.Stderr, "[%s %s %s mode=%s] %s obligations=%d discharged=%d steps=%d states=%d queries=%d solver=%.1fs wall=%.1fs\n",
				id, r.Unit, caseStr(r.Cases), r.Mode, r.Status, r.Obligations, r.Discharged, r.Steps, r.States, r.Queries, r.SolverS, r.WallS)
			for _, m := range r.Inconcl {
				fmt.Fprintf(os.Stderr, "    inconclusive: %s\n", m)
			}
			for _, v := range r.Violated {
				fmt.Fprintf(os.Stderr, "    violated: %s [%s]\n", v.Msg, v.Pos)
			}
		}(i)
	}
	wg.Wait()

	if os.Getenv("GOSMT_DEBUG_WITNESS") != "" {
		for _, r := range results {
			if r != nil && r.Witness != nil && r.Witness.Expect != nil {
				fmt.Fprintf(os.Stderr, "WITNESS %s %s expect observes=%v failed=%v\n", r.Unit, caseStr(r.Cases), r.Witness.Expect.Observes, r.Witness.Expect.Failed)
				if data, err := json.MarshalIndent(r.Witness, "", " "); err == nil {
					ud := filepath.Join(verifDir, "build", "witness")
					os.MkdirAll(ud, 0o755)
					os.WriteFile(filepath.Join(ud, fmt.Sprintf("%s-%s.json", id, r.Unit)), data, 0o644)
				}
			}
		}
	}
	// native validation of witnesses and replay of counterexamples
	nat := &nativeRunner{sp: sp, propDir: propDir}
	exit := 0
	var notes []string
	validated := 0
	violations := 0
	os.MkdirAll(filepath.Join(verifDir, "replays"), 0o755)
	var witnessRuns []*Replay
	var witnessIdx []int
	type pending struct {
		ri, vi int
		rp     *Replay
	}
	var viol []pending
	for i, r := range results {
		if r.Witness != nil && jobs[i].mode == "main" && !jobs[i].unit.NoNative {
			witnessRuns = append(witnessRuns, r.Witness)
			witnessIdx = append(witnessIdx, i)
		}
		for vi, v := range r.Violated {
			if v.Replay != nil {
				viol = append(viol, pending{i, vi, v.Replay})
			}
		}
	}
	if !*noNative && (len(witnessRuns) > 0 || len(viol) > 0) {
		var all []*Replay
		// limit witness validation in the quick tier to keep the native run short
		maxW := len(witnessRuns)
		if *tier == "quick" && maxW > 24 {
			maxW = 24
		}
		all = append(all, witnessRuns[:maxW]...)
		for _, p := range viol {
			if !jobs[p.ri].unit.NoNative {
				all = append(all, p.rp)
			}
		}
		outs, err := nat.run(all)
		if err != nil {
			notes = append(notes, "native run failed: "+err.Error())
			fmt.Fprintln(os.Stderr, "native run failed:", err)
			exit = 2
		} else {
			for k := 0; k < maxW; k++ {
				o := outs[k]
				r := results[witnessIdx[k]]
				if msg := compareWitness(witnessRuns[k], o); msg != "" {
					notes = append(notes, fmt.Sprintf("translator validation mismatch in %s[%s]: %s", r.Unit, caseStr(r.Cases), msg))
					fmt.Fprintf(os.Stderr, "TRANSLATOR-VALIDATION MISMATCH %s[%s]: %s\n", r.Unit, caseStr(r.Cases), msg)
					if r.Status == "pass" {
						r.Status = "inconclusive"
						r.Inconcl = append(r.Inconcl, "native run of the witness disagrees with the encoding: "+msg)
					}
				} else {
					validated++
				}
			}
			k := maxW
			for _, p := range viol {
				if jobs[p.ri].unit.NoNative {
					continue
				}
				o := outs[k]
				k++
				r := results[p.ri]
				v := &r.Violated[p.vi]
				confirmed := o.Panic != "" || len(o.Failed) > 0
				if o.AssumeFailed {
					confirmed = false
				}
				if !confirmed {
					msg := fmt.Sprintf("counterexample for %q did not reproduce natively (assume_failed=%v)", v.Msg, o.AssumeFailed)
					notes = append(notes, msg)
					r.Inconcl = append(r.Inconcl, msg)
					if data, err := json.MarshalIndent(v.Replay, "", " "); err == nil {
						ud := filepath.Join(verifDir, "build", "unconfirmed")
						os.MkdirAll(ud, 0o755)
						os.WriteFile(filepath.Join(ud, fmt.Sprintf("%s-%s.json", id, r.Unit)), data, 0o644)
					}
					v.Msg = "UNCONFIRMED: " + v.Msg
				} else {
					validated++
				}
			}
		}
	}
	// verdicts
	cex := 0
	knownPrinted := map[string]bool{}
	for i, r := range results {
		j := jobs[i]
		if j.mode != "main" {
			// known-finding reproduction
			confirmed := false
			for _, v := range r.Violated {
				if !strings.HasPrefix(v.Msg, "UNCONFIRMED") {
					confirmed = true
				}
			}
			if confirmed && !knownPrinted[j.mode] {
				knownPrinted[j.mode] = true
				fmt.Printf("KNOWN-FINDING: property=%s %s: %s\n", id, j.mode, findingText[j.mode])
			}
			continue
		}
		for _, v := range r.Violated {
			if strings.HasPrefix(v.Msg, "UNCONFIRMED") {
				if exit == 0 {
					exit = 2
				}
				continue
			}
			cex++
			path := filepath.Join(verifDir, "replays", fmt.Sprintf("%s-%s-%d.json", id, r.Unit, cex))
			data, _ := json.MarshalIndent(v.Replay, "", " ")
			os.WriteFile(path, data, 0o644)
			fmt.Printf("VIOLATION property=%s replay=%s\n", id, path)
			fmt.Printf("  unit=%s cases=%s: %s [%s]\n", r.Unit, caseStr(r.Cases), v.Msg, v.Pos)
			violations++
			exit = 1
		}
		if r.Status == "inconclusive" && exit == 0 {
			exit = 2
		}
	}
	// dedupe KNOWN-FINDING lines is handled by modes being unique per case; fine.
	writeEvidence(sp, *tier, seed, jobs, results, time.Since(t0).Seconds(), loadS, notes, validated)
	if exit == 2 {
		fmt.Printf("INCONCLUSIVE property=%s (see evidence)\n", id)
	}
	if exit == 0 {
		fmt.Printf("OK property=%s tier=%s jobs=%d wall=%.1fs\n", id, *tier, len(jobs), time.Since(t0).Seconds())
	}
	_ = violations
	return exit
}

func compareWitness(rp *Replay, o *nativeOut) string {
	if rp.Expect != nil && len(rp.Expect.Failed) > 0 {
		if o.Panic != "" || len(o.Failed) > 0 {
			return ""
		}
		return "encoding predicts a failed obligation for the witness, native run shows none"
	}
	if o.AssumeFailed {
		return "native run failed an assumption the model satisfies"
	}
	if o.Panic != "" {
		return "native run panicked: " + o.Panic
	}
	if len(o.Failed) > 0 {
		return "native run failed assertion(s): " + strings.Join(o.Failed, "; ")
	}
	if !o.Completed {
		return "native run did not complete"
	}
	// observations as multisets
	cnt := map[string]int{}
	for _, ob := range rp.Expect.Observes {
		cnt[ob[0]+"="+ob[1]]++
	}
	for _, ob := range o.Observes {
		cnt[ob[0]+"="+ob[1]]--
	}
	for k, v := range cnt {
		if v != 0 {
			return fmt.Sprintf("observation %s differs (engine-native count %+d)", k, v)
		}
	}
	return ""
}
