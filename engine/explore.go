package main

import (
	"fmt"
	"go/types"
	"os"
	"sort"
	"strings"
	"sync"
	"time"

	"golang.org/x/tools/go/ssa"
)

func NewEngine(prog *ssa.Program, cfg *UnitCfg, solverTimeoutMs int) *Engine {
	e := &Engine{
		b: NewBuilder(), prog: prog, info: map[*ssa.Function]*fnInfo{}, fnIDs: map[*ssa.Function]int{},
		globals: map[*ssa.Global]int{}, strObjs: map[string]int{}, cfg: cfg, cases: map[string]int64{},
		varRange: map[*Term][2]uint64{}, fnSeen: map[*ssa.Function]bool{}, initDone: map[*ssa.Package]bool{},
		initWritten: map[int]bool{}, initFailed: map[*ssa.Package]string{}, inputDecls: map[string]*inputDecl{},
		knownSeen: map[string]bool{}, openFindings: map[string]bool{}, mode: "main", siteIDs: map[string]int{}, rangeConds: map[*Term]*Term{}, live_: map[*ssa.Function]*liveInfo{},
	}
	e.initState = &State{heap: map[int]cell{}, id: 0}
	e.solver = NewSolver(solverTimeoutMs)
	e.trace = os.Getenv("GOSMT_TRACE") != ""
	return e
}

func (e *Engine) Close() { e.solver.Close() }

// ---------- merging of states ----------
func (e *Engine) mergeTwo(a, b *State) *State {
	if len(a.frames) != len(b.frames) {
		return nil
	}
	for i, fa := range a.frames {
		fb := b.frames[i]
		if fa.fn != fb.fn || fa.blk != fb.blk || fa.ip != fb.ip || fa.sub != fb.sub || fa.call != fb.call || fa.inDefer != fb.inDefer || len(fa.defers) != len(fb.defers) {
			return nil
		}
		for k, v := range fa.iters {
			if fb.iters[k] != v {
				return nil
			}
		}
		for j := range fa.defers {
			if fa.defers[j].call != fb.defers[j].call {
				return nil
			}
		}
	}
	// lock monitor state must agree
	if len(a.locks) != len(b.locks) {
		la, lb := 0, 0
		for _, v := range a.locks {
			la += v
		}
		for _, v := range b.locks {
			lb += v
		}
		if la != lb {
			return nil
		}
	}
	for k, v := range a.locks {
		if b.locks[k] != v {
			return nil
		}
	}
	k := 0
	for k < len(a.pc) && k < len(b.pc) && a.pc[k] == b.pc[k] {
		k++
	}
	dA, dB := e.conj(a.pc[k:]), e.conj(b.pc[k:])
	n := cloneState(a)
	var ca, cb map[int]int
	var own func(c *Term, va, vb Val) Val
	own = func(c *Term, va, vb Val) Val {
		switch x := va.(type) {
		case SliceV:
			if y, ok := vb.(SliceV); ok && x.obj != y.obj && x.obj != 0 && y.obj != 0 {
				if ca == nil {
					ca, cb = e.refCounts(a), e.refCounts(b)
				}
				if m, ok := e.tryCopyMerge(c, x, y, a, b, n, ca, cb); ok {
					return m
				}
			}
		case StructV:
			if y, ok := vb.(StructV); ok && len(x.f) == len(y.f) {
				r := StructV{f: make([]Val, len(x.f))}
				for i := range x.f {
					r.f[i] = own(c, x.f[i], y.f[i])
				}
				return r
			}
		case TupleV:
			if y, ok := vb.(TupleV); ok && len(x) == len(y) {
				r := make(TupleV, len(x))
				for i := range x {
					r[i] = own(c, x[i], y[i])
				}
				return r
			}
		}
		return e.mergeVal(c, va, vb)
	}
	n.id = a.id
	n.pc = append(append([]*Term(nil), a.pc[:k]...))
	if d := e.b.Or(dA, dB); !d.IsTrue() {
		n.pc = append(n.pc, d)
	}
	for i, fa := range a.frames {
		fb := b.frames[i]
		nl := make(map[ssa.Value]Val, len(fa.locals))
		for key, va := range fa.locals {
			vb, ok := fb.locals[key]
			if !ok {
				continue
			}
			nl[key] = own(dA, va, vb)
		}
		n.frames[i].locals = nl
		// stack allocs: union
		seen := map[int]bool{}
		var stk []int
		for _, id := range append(append([]int(nil), fa.stack...), fb.stack...) {
			if !seen[id] {
				seen[id] = true
				stk = append(stk, id)
			}
		}
		n.frames[i].stack = stk
		for j := range fa.defers {
			da, db := fa.defers[j], fb.defers[j]
			nd := deferred{call: da.call, fn: e.mergeVal(dA, da.fn, db.fn)}
			for q := range da.args {
				nd.args = append(nd.args, e.mergeVal(dA, da.args[q], db.args[q]))
			}
			n.frames[i].defers[j] = nd
		}
	}
	for id, cellB := range b.heap {
		cellA, ok := a.heap[id]
		if !ok {
			if base, ok2 := e.initState.heap[id]; ok2 {
				// a kept the initial value, b modified it
				m, ok3 := e.merge(dA, base.v, cellB.v, true)
				if !ok3 {
					return nil
				}
				e.nstamp++
				n.heap[id] = cell{m, e.nstamp}
				continue
			}
			if _, gone := n.heap[id]; !gone {
				n.heap[id] = cellB
			}
			continue
		}
		if cellA.stamp == cellB.stamp {
			continue
		}
		var m Val
		if _, isStruct := cellA.v.(StructV); isStruct {
			m = own(dA, cellA.v, cellB.v)
		} else {
			var ok bool
			m, ok = e.merge(dA, cellA.v, cellB.v, true)
			if !ok {
				return nil
			}
		}
		e.nstamp++
		n.heap[id] = cell{m, e.nstamp}
	}
	for id, cellA := range a.heap {
		if _, ok := b.heap[id]; ok {
			continue
		}
		if base, ok2 := e.initState.heap[id]; ok2 {
			m, ok3 := e.merge(dA, cellA.v, base.v, true)
			if !ok3 {
				return nil
			}
			e.nstamp++
			n.heap[id] = cell{m, e.nstamp}
		}
	}
	if a.lastNow != b.lastNow {
		if a.lastNow != nil && b.lastNow != nil {
			n.lastNow = e.b.Ite(dA, a.lastNow, b.lastNow)
		} else if b.lastNow != nil {
			n.lastNow = b.lastNow
		}
	}
	// input-name counters: take the max
	// input-name counters must agree, otherwise later requests of that name are ambiguous (native replay
	// counts per path): such names are poisoned
	for k2, v := range b.names {
		if n.names == nil {
			n.names = map[string]int{}
		}
		if av, ok := a.names[k2]; !ok || av != v {
			n.names[k2] = -1
		}
	}
	for k2 := range a.names {
		if _, ok := b.names[k2]; !ok {
			n.names[k2] = -1
		}
	}
	e.merges++
	return n
}

// Explore runs all states to completion with join-point merging.
func (e *Engine) Explore(init *State) {
	e.live = []*State{init}
	init.tm = e.timeOf(init)
	for len(e.live) > 0 {
		if e.aborted != "" {
			return
		}
		if len(e.live) > e.maxLive {
			e.maxLive = len(e.live)
		}
		mi := 0
		for i := 1; i < len(e.live); i++ {
			if cmpTime(e.live[i].tm, e.live[mi].tm) < 0 {
				mi = i
			}
		}
		st := e.live[mi]
		if st.atJoin {
			mt := st.tm
			var group, rest []*State
			for _, o := range e.live {
				if o.atJoin && cmpTime(o.tm, mt) == 0 {
					group = append(group, o)
				} else {
					rest = append(rest, o)
				}
			}
			if len(group) > 1 {
				for _, g := range group {
					e.pruneDead(g)
				}
			}
			merged := []*State{group[0]}
			for _, g := range group[1:] {
				done := false
				for i, m := range merged {
					if n := e.mergeTwo(m, g); n != nil {
						merged[i] = n
						done = true
						break
					}
				}
				if !done {
					merged = append(merged, g)
				}
			}
			e.live = rest
			for _, m := range merged {
				m.atJoin = false
				if e.loopWaveInfeasible(m) {
					continue
				}
				e.runOne(m)
			}
			continue
		}
		e.live = append(e.live[:mi], e.live[mi+1:]...)
		e.runOne(st)
	}
}

func (e *Engine) runOne(st *State) {
	spawned, done := e.run(st)
	spawned = append(spawned, e.pendingSpawn...)
	e.pendingSpawn = nil
	for _, s := range spawned {
		if len(s.frames) == 0 {
			continue
		}
		s.tm = e.timeOf(s)
		e.live = append(e.live, s)
	}
	if !done && len(st.frames) > 0 {
		st.tm = e.timeOf(st)
		e.live = append(e.live, st)
	}
}

// ---------- package initialisation ----------

// closure computes the functions statically reachable from roots (static callees, closures, method values).
func (e *Engine) closure(roots []*ssa.Function) map[*ssa.Function]bool {
	seen := map[*ssa.Function]bool{}
	var work []*ssa.Function
	add := func(f *ssa.Function) {
		if f != nil && !seen[f] {
			seen[f] = true
			work = append(work, f)
		}
	}
	for _, r := range roots {
		add(r)
	}
	for len(work) > 0 {
		fn := work[len(work)-1]
		work = work[:len(work)-1]
		if e.isCut(fn) {
			continue
		}
		for _, b := range fn.Blocks {
			for _, in := range b.Instrs {
				var ops [10]*ssa.Value
				for _, op := range in.Operands(ops[:0]) {
					if f, ok := (*op).(*ssa.Function); ok {
						add(f)
					}
				}
				if mi, ok := in.(*ssa.MakeInterface); ok {
					// methods of the concrete type may be invoked dynamically
					ms := e.prog.MethodSets.MethodSet(mi.X.Type())
					for i := 0; i < ms.Len(); i++ {
						add(e.prog.MethodValue(ms.At(i)))
					}
				}
			}
		}
		for _, af := range fn.AnonFuncs {
			add(af)
		}
	}
	return seen
}

// isCut: functions whose bodies are never interpreted (library models / stubs).
func (e *Engine) isCut(fn *ssa.Function) bool {
	pkg := ""
	if fn.Pkg != nil {
		pkg = fn.Pkg.Pkg.Path()
	} else if o := fn.Origin(); o != nil && o.Pkg != nil {
		pkg = o.Pkg.Pkg.Path()
	} else if fn.Signature.Recv() != nil {
		if n, ok := derefNamed(fn.Signature.Recv().Type()); ok && n.Obj().Pkg() != nil {
			pkg = n.Obj().Pkg().Path()
		}
	}
	switch pkg {
	case "log/slog", "github.com/rcrowley/go-metrics", "log", "github.com/sirupsen/logrus", "fmt", "runtime", "runtime/debug", "reflect", "internal/reflectlite", "os", "syscall", "sync", "time", "context", "internal/bytealg", "math/bits", "sync/atomic", "unique", "regexp", "regexp/syntax", "net", "crypto/rand", "io", "bufio", "unicode", "encoding/json", "encoding/hex", "encoding/base64", "text/template", "testing":
		return true
	}
	if e.cfg != nil {
		if _, ok := e.cfg.Stubs[fn.String()]; ok {
			return true
		}
	}
	return false
}

// runInits executes the package initialisers needed by the harness closure.
func (e *Engine) runInits(roots []*ssa.Function) {
	cl := e.closure(roots)
	need := map[*ssa.Package]bool{}
	for fn := range cl {
		for _, b := range fn.Blocks {
			for _, in := range b.Instrs {
				var ops [10]*ssa.Value
				for _, op := range in.Operands(ops[:0]) {
					if g, ok := (*op).(*ssa.Global); ok && g.Pkg != nil {
						need[g.Pkg] = true
					}
				}
			}
		}
	}
	if e.cfg != nil {
		for _, p := range e.cfg.Inits {
			if sp := e.prog.ImportedPackage(p); sp != nil {
				need[sp] = true
			}
		}
	}
	// order by import depth (dependencies first)
	var pkgs []*ssa.Package
	for p := range need {
		pkgs = append(pkgs, p)
	}
	depth := map[*types.Package]int{}
	var dep func(p *types.Package) int
	dep = func(p *types.Package) int {
		if d, ok := depth[p]; ok {
			return d
		}
		depth[p] = 0
		d := 0
		for _, im := range p.Imports() {
			if x := dep(im) + 1; x > d {
				d = x
			}
		}
		depth[p] = d
		return d
	}
	sort.Slice(pkgs, func(i, j int) bool {
		di, dj := dep(pkgs[i].Pkg), dep(pkgs[j].Pkg)
		if di != dj {
			return di < dj
		}
		return pkgs[i].Pkg.Path() < pkgs[j].Pkg.Path()
	})
	for _, p := range pkgs {
		e.runInit(p)
	}
}

func (e *Engine) runInit(p *ssa.Package) {
	if e.initDone[p] {
		return
	}
	e.initDone[p] = true
	path := p.Pkg.Path()
	switch path {
	case "runtime", "reflect", "os", "syscall", "time", "sync", "internal/godebug", "internal/cpu", "unicode", "net", "fmt", "log/slog", "testing", "github.com/rcrowley/go-metrics", "regexp", "regexp/syntax", "crypto/rand", "internal/poll", "io/fs", "math/rand", "math/rand/v2":
		// environment packages: globals of these are never meaningful to the harnesses
		e.initFailed[p] = "environment package, init not executed"
		return
	}
	initFn := p.Func("init")
	if initFn == nil || initFn.Blocks == nil {
		return
	}
	t0 := time.Now()
	e.inInit = true
	saveCfg := e.cfg
	e.aborted = ""
	st := &State{heap: map[int]cell{}, id: -1}
	nf := &Frame{fn: initFn, fnID: e.fnID(initFn), locals: map[ssa.Value]Val{}, iters: map[int]int{}}
	st.frames = []*Frame{nf}
	e.initPkg = p
	e.enter(st, initFn.Blocks[0])
	st.atJoin = false
	e.initFinal = nil
	saveSteps := e.steps
	e.deadline = e.steps + 3000000
	e.Explore(st)
	e.deadline = 0
	e.live = nil
	fin := e.initFinal
	if e.aborted != "" || fin == nil {
		why := e.aborted
		if why == "" {
			why = "init did not complete on a single path"
		}
		e.initFailed[p] = why
		// keep what was written so far (last running state is lost; use st)
		if fin == nil {
			fin = st
		}
	}
	// commit the init heap into the shared initial state
	for id, c := range fin.heap {
		e.initState.heap[id] = c
		e.initWritten[id] = true
	}
	e.aborted = ""
	e.inInit = false
	e.cfg = saveCfg
	e.initSteps += e.steps - saveSteps
	if os.Getenv("GOSMT_PROGRESS") != "" {
		fmt.Fprintf(os.Stderr, "init %s: %d steps %.2fs failed=%q\n", path, e.steps-saveSteps, time.Since(t0).Seconds(), e.initFailed[p])
	}
}

// ---------- discharge ----------

type UnitResult struct {
	Unit        string           `json:"unit"`
	Cases       map[string]int64 `json:"cases,omitempty"`
	Mode        string           `json:"mode"`
	Status      string           `json:"status"` // pass | violation | inconclusive
	Obligations int              `json:"obligations"`
	Discharged  int              `json:"discharged"`
	Violated    []Violation      `json:"violated,omitempty"`
	Inconcl     []string         `json:"inconclusive,omitempty"`
	Reach       string           `json:"reach_witness"`
	Steps       int              `json:"steps"`
	States      int              `json:"states"`
	Forks       int              `json:"forks"`
	Merges      int              `json:"merges"`
	Splits      int              `json:"splits"`
	MaxLive     int              `json:"max_live"`
	Terms       int              `json:"terms"`
	Queries     int              `json:"queries"`
	SolverS     float64          `json:"solver_s"`
	WallS       float64          `json:"wall_s"`
	Funcs       []string         `json:"functions_encoded,omitempty"`
	Stubs       map[string]int   `json:"stubs,omitempty"`
	Witness     *Replay          `json:"witness,omitempty"`
	QueryLog    []QueryInfo      `json:"queries_log,omitempty"`
	Cross       []CrossResult    `json:"cross,omitempty"`
	KnownSeen   []string         `json:"known_regions,omitempty"`
	Paths       int              `json:"paths"`
	Sliced      int              `json:"sliced_obligations"`
	InitSteps   int              `json:"init_steps"`
}

type QueryInfo struct {
	What   string  `json:"what"`
	Result string  `json:"result"`
	Secs   float64 `json:"secs"`
	Nodes  int     `json:"nodes"`
	By     string  `json:"decided_by,omitempty"`
}

type Violation struct {
	Msg    string  `json:"msg"`
	Pos    string  `json:"pos"`
	Replay *Replay `json:"replay,omitempty"`
}

// Replay is the concrete assignment of a model, consumed by the native harness runtime.
type Replay struct {
	Unit    string              `json:"unit"`
	Func    string              `json:"func"`
	Mode    string              `json:"mode"`
	Open    []string            `json:"open,omitempty"`
	Cases   map[string]int64    `json:"cases,omitempty"`
	Scalars map[string]uint64   `json:"scalars"`
	Arrays  map[string][]uint64 `json:"arrays"`
	UFs     []UFEntry           `json:"ufs,omitempty"`
	Expect  *Expect             `json:"expect,omitempty"`
}

type UFEntry struct {
	Name string     `json:"name"`
	Args [][]uint64 `json:"args"`
	Out  []uint64   `json:"out"`
}

// Expect: what the engine predicts the native run will show (translator validation).
type Expect struct {
	Observes [][2]string `json:"observes"`
	Failed   []string    `json:"failed"`
}

func (e *Engine) replayFrom(env *Env, unit, fn string) *Replay {
	r := &Replay{Unit: unit, Func: fn, Mode: e.mode, Cases: e.cases, Scalars: map[string]uint64{}, Arrays: map[string][]uint64{}}
	for id := range e.openFindings {
		r.Open = append(r.Open, id)
	}
	sort.Strings(r.Open)
	for _, key := range e.inputOrder {
		d := e.inputDecls[key]
		if d.Kind == "scalar" {
			r.Scalars[key] = env.Eval(d.Terms[0])
		} else {
			vs := make([]uint64, len(d.Terms))
			for i, t := range d.Terms {
				vs[i] = env.Eval(t)
			}
			r.Arrays[key] = vs
		}
	}
	for _, u := range e.ufLog {
		en := UFEntry{Name: u.name}
		for _, row := range u.args {
			n := int(env.Eval(row[0]))
			var a []uint64
			for k := 1; k < len(row) && k-1 < n; k++ {
				a = append(a, env.Eval(row[k]))
			}
			en.Args = append(en.Args, a)
		}
		for _, o := range u.out {
			en.Out = append(en.Out, env.Eval(o))
		}
		r.UFs = append(r.UFs, en)
	}
	// predicted observations / failures under this assignment
	ex := &Expect{}
	for _, o := range e.observes {
		if env.Eval(o.pc) == 1 {
			ex.Observes = append(ex.Observes, [2]string{o.name, fmt.Sprint(env.Eval(o.v))})
		}
	}
	for _, o := range e.obls {
		if (o.kind == oblAssert || o.kind == oblPanic) && env.Eval(o.t) == 1 {
			ex.Failed = append(ex.Failed, o.msg)
		}
	}
	r.Expect = ex
	return r
}

// discharge decides all recorded obligations.
func (e *Engine) discharge(res *UnitResult, unit, fn string, maxViol int) {
	b := e.b
	var props, incs []Obligation
	for _, o := range e.obls {
		if o.t.IsFalse() {
			res.Discharged++
			continue
		}
		if o.kind == oblAssert || o.kind == oblPanic {
			props = append(props, o)
		} else {
			incs = append(incs, o)
		}
	}
	res.Obligations = len(e.obls)
	// independence slicing of the property obligations
	sl := newSlicer(e)
	full := map[*Term]*Term{} // sliced term -> full term
	anySliced := false
	_ = anySliced
	for i := range props {
		st, dropped := sl.slice(props[i])
		if dropped {
			anySliced = true
			full[st] = props[i].t
			props[i].t = st
			res.Sliced++
		}
	}
	logq := func(what string, q QueryResult) {
		res.QueryLog = append(res.QueryLog, QueryInfo{what, q.Status, q.Secs, q.Nodes, q.By})
	}
	// 1. inconclusive conditions (unwinding assertions, unsupported constructs) must be unreachable
	if len(incs) > 0 {
		var ts []*Term
		for _, o := range incs {
			ts = append(ts, o.t)
		}
		q := e.solver.Check(b, []*Term{b.OrN(ts)}, "unwind+unsupported")
		logq(fmt.Sprintf("unwinding/unsupported-construct conditions unreachable (%d)", len(incs)), q)
		switch q.Status {
		case "unsat":
			res.Discharged += len(incs)
		case "sat":
			for _, o := range incs {
				if q.Env.Eval(o.t) == 1 {
					res.Inconcl = append(res.Inconcl, o.msg+" ["+o.pos+"]")
					if len(res.Inconcl) > 5 {
						break
					}
				}
			}
			if len(res.Inconcl) == 0 {
				res.Inconcl = append(res.Inconcl, "model does not satisfy any inconclusive condition (evaluator/solver mismatch)")
			}
		default:
			res.Inconcl = append(res.Inconcl, "solver "+q.Status+" on unwinding/unsupported conditions")
		}
	}
	// 2. property obligations: one short batched query first; if that does not close, every obligation is
	// decided on its own (sliced form first), in parallel, each by the solver portfolio.
	seenMsg := map[string]bool{}
	report := func(o Obligation, env *Env) {
		if !seenMsg[o.msg+o.pos] && len(res.Violated) < maxViol {
			seenMsg[o.msg+o.pos] = true
			res.Violated = append(res.Violated, Violation{o.msg, o.pos, e.replayFrom(env, unit, fn)})
		}
	}
	if len(props) > 0 {
		// (a) the whole batch as one disjunctive query, (b) every obligation on its own, concurrently;
		// (a) unsat discharges everything and cancels (b); otherwise (b) decides.
		var ts []*Term
		for _, o := range props {
			ts = append(ts, o.t)
		}
		batchTerm := b.OrN(ts)
		cancelSingles := make(chan struct{})
		cancelBatch := make(chan struct{})
		var batchQ QueryResult
		batchFull := false
		batchDone := make(chan struct{})
		go func() {
			defer close(batchDone)
			sb := NewSolver(e.solver.timeoutMs)
			sb.tag, sb.dumpDir, sb.cancel = e.solver.tag, e.solver.dumpDir, cancelBatch
			batchQ = sb.Check(b, []*Term{batchTerm}, "obligations")
			if batchQ.Status == "sat" && anySliced {
				// a model of sliced obligations is not a verdict: decide the batch on the full terms
				var fts []*Term
				for _, o := range props {
					if f, ok := full[o.t]; ok {
						fts = append(fts, f)
					} else {
						fts = append(fts, o.t)
					}
				}
				batchQ = sb.Check(b, []*Term{b.OrN(fts)}, "obligations-full")
				batchFull = true
			}
			if batchQ.Status == "unsat" || batchQ.Status == "sat" {
				close(cancelSingles)
			}
		}()
		type sres struct {
			status string
			env    *Env
			q      QueryResult
			ran    bool
		}
		out := make([]sres, len(props))
		workers := e.parGroups
		if workers < 1 {
			workers = 1
		}
		if workers > 8 {
			workers = 8
		}
		if len(props) == 1 {
			workers = 0
		}
		// give the batch a head start: single-obligation queries only begin if it is still running after a while
		delay := time.Duration(e.solver.timeoutMs/4) * time.Millisecond
		if delay > 40*time.Second {
			delay = 40 * time.Second
		}
		if workers > 0 {
			select {
			case <-batchDone:
				if batchQ.Status == "unsat" || batchQ.Status == "sat" {
					workers = 0
				}
			case <-time.After(delay):
			}
		}
		var wg sync.WaitGroup
		var mu sync.Mutex
		next := 0
		budget := time.Now().Add(time.Duration(e.solver.timeoutMs) * time.Millisecond * 2)
		for w := 0; w < workers; w++ {
			wg.Add(1)
			go func() {
				defer wg.Done()
				for {
					select {
					case <-cancelSingles:
						return
					default:
					}
					mu.Lock()
					i := next
					next++
					mu.Unlock()
					if i >= len(props) {
						return
					}
					if time.Now().After(budget) {
						out[i] = sres{status: "unknown(budget for single obligations exhausted)", ran: true}
						continue
					}
					o := props[i]
					s2 := NewSolver(e.solver.timeoutMs)
					s2.tag, s2.dumpDir, s2.cancel = fmt.Sprintf("%s-o%d", e.solver.tag, i), e.solver.dumpDir, cancelSingles
					q1 := s2.Check(b, []*Term{o.t}, "single")
					if q1.Status == "sat" {
						if f, sliced := full[o.t]; sliced {
							// a sliced sat is not a verdict: decide the full obligation
							q1 = s2.Check(b, []*Term{f}, "single-full")
						}
					}
					out[i] = sres{status: q1.Status, env: q1.Env, q: q1, ran: true}
				}
			}()
		}
		singlesDone := make(chan struct{})
		go func() { wg.Wait(); close(singlesDone) }()
		if workers == 0 {
			<-batchDone
			if batchQ.Status != "unsat" && batchQ.Status != "sat" && len(props) > 1 {
				// batch finished without closing before the head start elapsed: decide singles sequentially
				for i, o := range props {
					s2 := NewSolver(e.solver.timeoutMs)
					q1 := s2.Check(b, []*Term{o.t}, "single")
					if q1.Status == "sat" {
						if f, sliced := full[o.t]; sliced {
							q1 = s2.Check(b, []*Term{f}, "single-full")
						}
					}
					out[i] = sres{status: q1.Status, env: q1.Env, q: q1, ran: true}
				}
			}
		} else {
			select {
			case <-batchDone:
				if batchQ.Status != "unsat" && batchQ.Status != "sat" {
					<-singlesDone
				}
			case <-singlesDone:
				// all singles decided?
				all := true
				for i := range out {
					if !out[i].ran || (out[i].status != "sat" && out[i].status != "unsat") {
						all = false
					}
				}
				if all {
					close(cancelBatch)
				}
				<-batchDone
			}
		}
		<-singlesDone
		e.solver.Queries++
		e.solver.Time += time.Duration(batchQ.Secs * float64(time.Second))
		logq(fmt.Sprintf("batch of %d obligations (assertions + implicit panic guards), %d with independence-sliced path conditions", len(props), res.Sliced), batchQ)
		if batchQ.Status == "unsat" {
			res.Discharged += len(props)
		} else {
			if batchQ.Status == "sat" {
				hit := false
				for i, o := range props {
					t := o.t
					if f, sliced := full[o.t]; sliced {
						if !batchFull {
							continue
						}
						t = f
					}
					if batchQ.Env.Eval(t) == 1 {
						hit = true
						if !(out[i].ran && out[i].status == "sat") {
							out[i] = sres{status: "sat", env: batchQ.Env, q: batchQ, ran: true}
						}
					} else if !out[i].ran || (out[i].status != "sat" && out[i].status != "unsat") {
						// a violation has been found; the remaining obligations of this unit are not pursued
						out[i] = sres{status: "skipped", ran: true}
					}
				}
				if !hit {
					res.Inconcl = append(res.Inconcl, "model satisfies no obligation (evaluator/solver mismatch)")
				}
			}
			nUnknown := 0
			for i, o := range props {
				r := out[i]
				if !r.ran {
					r.status = "unknown(not decided)"
				}
				e.solver.Queries++
				e.solver.Time += time.Duration(r.q.Secs * float64(time.Second))
				if len(res.QueryLog) < 60 {
					logq("single obligation: "+o.msg+" ["+o.pos+"]", r.q)
				}
				switch r.status {
				case "unsat":
					res.Discharged++
				case "skipped":
				case "sat":
					oo := o
					if f, sliced := full[o.t]; sliced {
						oo.t = f
					}
					report(oo, r.env)
				default:
					nUnknown++
					if nUnknown <= 8 {
						res.Inconcl = append(res.Inconcl, "solver "+r.status+" on: "+o.msg+" ["+o.pos+"]")
					}
				}
			}
		}
	}
	// 3. reachability witness (vacuity guard)
	if len(e.finals) == 0 {
		res.Reach = "no path reaches the end of the harness"
	} else {
		q := e.solver.Check(b, []*Term{b.OrN(e.finals)}, "reach")
		logq("reachability witness: end of harness reachable under all assumptions", q)
		res.Reach = q.Status
		if q.Status == "sat" {
			res.Witness = e.replayFrom(q.Env, unit, fn)
		}
	}
	res.Cross = e.solver.Cross
}

func (e *Engine) funcsEncoded() []string {
	var out []string
	for fn := range e.fnSeen {
		n := 0
		for _, b := range fn.Blocks {
			n += len(b.Instrs)
		}
		out = append(out, fmt.Sprintf("%s (%d instrs)", strings.TrimPrefix(fn.String(), "github.com/slackhq/nebula"), n))
	}
	sort.Strings(out)
	return out
}

// loopWaveInfeasible: a (merged) state that re-enters a loop header for the k-th time (k >= 2) is checked for
// feasibility once per wave; infeasible waves are dropped, which stops the lazy unrolling of loops whose real
// trip count is small.
func (e *Engine) loopWaveInfeasible(st *State) bool {
	if e.inInit || len(st.frames) == 0 {
		return false
	}
	f := st.frames[len(st.frames)-1]
	if f.blk == nil {
		return false
	}
	k, isHeader := f.iters[f.blk.Index]
	if !isHeader || k < 2 {
		return false
	}
	if e.cfg == nil || !e.cfg.LoopFeas {
		return false
	}
	pc := e.conj(st.pc)
	if pc.IsFalse() {
		return true
	}
	if pc.IsTrue() {
		return false
	}
	s2 := NewSolver(4000)
	q := s2.Check(e.b, []*Term{pc}, "loop-feasibility")
	e.feasQueries++
	if os.Getenv("GOSMT_PROGRESS") != "" {
		fmt.Fprintf(os.Stderr, "loop feasibility %s iter=%d: %s %.1fs nodes=%d\n", f.fn.Name(), k, q.Status, q.Secs, q.Nodes)
	}
	e.solver.Time += time.Duration(q.Secs * float64(time.Second))
	return q.Status == "unsat"
}
