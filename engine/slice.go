package main

// Independence slicing: an obligation pc ∧ ¬c is checked as pc' ∧ ¬c where pc' keeps only the path-condition
// conjuncts that (transitively) share a variable or an uninterpreted function symbol with ¬c. Dropping
// conjuncts only weakens the hypotheses, so `unsat` for the slice implies `unsat` for the full obligation;
// a `sat` answer for a slice is never reported: the full obligation is re-checked.

type leafSet map[int]struct{}

type slicer struct {
	e     *Engine
	cache map[*Term]leafSet
	ufID  map[string]int
}

func newSlicer(e *Engine) *slicer {
	return &slicer{e: e, cache: map[*Term]leafSet{}, ufID: map[string]int{}}
}

func (s *slicer) leaves(t *Term) leafSet {
	if ls, ok := s.cache[t]; ok {
		return ls
	}
	ls := leafSet{}
	seen := map[*Term]bool{}
	stack := []*Term{t}
	for len(stack) > 0 {
		x := stack[len(stack)-1]
		stack = stack[:len(stack)-1]
		if seen[x] {
			continue
		}
		seen[x] = true
		switch x.op {
		case OpVar:
			ls[x.id] = struct{}{}
		case OpUF:
			id, ok := s.ufID[x.name]
			if !ok {
				id = -1 - len(s.ufID)
				s.ufID[x.name] = id
			}
			ls[id] = struct{}{}
		}
		for _, a := range x.args {
			if a.op != OpConst && !seen[a] {
				stack = append(stack, a)
			}
		}
	}
	s.cache[t] = ls
	return ls
}

func intersects(a, b leafSet) bool {
	if len(a) > len(b) {
		a, b = b, a
	}
	for k := range a {
		if _, ok := b[k]; ok {
			return true
		}
	}
	return false
}

// slice returns the sliced obligation term and whether anything was dropped.
func (s *slicer) slice(o Obligation) (*Term, bool) {
	if o.bad == nil || len(o.pcs) == 0 {
		return o.t, false
	}
	b := s.e.b
	cur := leafSet{}
	for k := range s.leaves(o.bad) {
		cur[k] = struct{}{}
	}
	used := make([]bool, len(o.pcs))
	for changed := true; changed; {
		changed = false
		for i, c := range o.pcs {
			if used[i] {
				continue
			}
			ls := s.leaves(c)
			if len(ls) == 0 || intersects(ls, cur) {
				used[i] = true
				for k := range ls {
					if _, ok := cur[k]; !ok {
						cur[k] = struct{}{}
						changed = true
					}
				}
			}
		}
	}
	dropped := false
	r := o.bad
	for i := len(o.pcs) - 1; i >= 0; i-- {
		if used[i] {
			r = b.And(o.pcs[i], r)
		} else {
			dropped = true
		}
	}
	return r, dropped
}
