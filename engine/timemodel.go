package main

import (
	"fmt"
	"go/token"
	"go/types"

	"golang.org/x/tools/go/ssa"
)

// timeModel: time.Time is abstracted to the struct {wall: 0, ext: signed 64-bit nanosecond count, loc: nil}.
// All arithmetic and comparisons of instants are done on that count (this avoids the 64-bit multiply/divide by
// 10^9 of the real representation, which no solver here decides). time.Now returns a fresh, non-decreasing
// instant. Saturation of Add/Sub at the int64 limits is not modelled.
func (e *Engine) timeModel(st *State, callee *ssa.Function, name, full string, args []Val, pos token.Pos) (Val, bool) {
	b := e.b
	mk := func(ns *Term) Val {
		return StructV{f: []Val{Scalar{b.BV(64, 0)}, Scalar{ns}, Ptr{}}}
	}
	ns := func(v Val) (*Term, bool) {
		s, ok := v.(StructV)
		if !ok || len(s.f) != 3 {
			return nil, false
		}
		t, ok := scalarOf(s.f[1])
		return t, ok
	}
	recv := callee.Signature.Recv()
	if recv == nil {
		switch name {
		case "Now":
			// engine-internal input (the native run reads the real clock): globally unique name
			e.nowSeq++
			t := e.declScalar(fmt.Sprintf("time.Now@%d", e.nowSeq), 64)
			// non-negative and non-decreasing
			e.addPC(st, b.Sle(b.BV(64, 0), t))
			e.addPC(st, b.Sle(t, b.BV(64, 1<<62))) // far from the int64 limits: no wrap-around in Add/Sub
			if st.lastNow != nil {
				e.addPC(st, b.Sle(st.lastNow, t))
				if e.cfg != nil && e.cfg.ClockStepNs > 0 {
					e.addPC(st, b.Sle(t, b.Add(st.lastNow, b.BV(64, uint64(e.cfg.ClockStepNs)))))
				}
			}
			st.lastNow = t
			return mk(t), true
		case "Unix":
			s, ok1 := scalarOf(args[0])
			n, ok2 := scalarOf(args[1])
			if !ok1 || !ok2 {
				return Poison{"time.Unix"}, true
			}
			return mk(b.Add(b.Bin(OpMul, s, b.BV(64, 1000000000)), n)), true
		case "UnixMilli":
			s, ok1 := scalarOf(args[0])
			if !ok1 {
				return Poison{"time.UnixMilli"}, true
			}
			return mk(b.Bin(OpMul, s, b.BV(64, 1000000))), true
		case "Since":
			t, ok := ns(args[0])
			if !ok {
				return Poison{"time.Since"}, true
			}
			now, _ := e.timeModel(st, callee, "Now", full, nil, pos)
			nt, _ := ns(now)
			return Scalar{b.Sub(nt, t)}, true
		case "Until":
			t, ok := ns(args[0])
			if !ok {
				return Poison{"time.Until"}, true
			}
			now, _ := e.timeModel(st, callee, "Now", full, nil, pos)
			nt, _ := ns(now)
			return Scalar{b.Sub(t, nt)}, true
		case "Sleep":
			// with a bounded clock step the sleep itself is what lets time pass
			if e.cfg != nil && e.cfg.ClockStepNs > 0 && st.lastNow != nil {
				if d, ok := scalarOf(args[0]); ok {
					pos0 := b.Ite(b.Sle(d, b.BV(64, 0)), b.BV(64, 0), d)
					st.lastNow = b.Add(st.lastNow, pos0)
				}
			}
			return e.zeroResults(callee), true
		case "NewTimer", "NewTicker", "AfterFunc", "After", "Tick":
			return e.zeroResults(callee), true
		}
		return nil, false
	}
	n, ok := derefNamed(recv.Type())
	if !ok {
		return nil, false
	}
	switch n.Obj().Name() {
	case "Time":
		var self Val = args[0]
		if _, isPtr := recv.Type().(*types.Pointer); isPtr {
			self = e.load(st, args[0], pos)
		}
		t, ok := ns(self)
		if !ok {
			return Poison{"time.Time method on unsupported value"}, true
		}
		switch name {
		case "Add":
			d, ok := scalarOf(args[1])
			if !ok {
				return Poison{"Time.Add"}, true
			}
			return mk(b.Add(t, d)), true
		case "Sub":
			u, ok := ns(args[1])
			if !ok {
				return Poison{"Time.Sub"}, true
			}
			return Scalar{b.Sub(t, u)}, true
		case "After":
			u, _ := ns(args[1])
			return Scalar{b.Slt(u, t)}, true
		case "Before":
			u, _ := ns(args[1])
			return Scalar{b.Slt(t, u)}, true
		case "Equal":
			u, _ := ns(args[1])
			return Scalar{b.Eq(t, u)}, true
		case "Compare":
			u, _ := ns(args[1])
			return Scalar{b.Ite(b.Slt(t, u), b.BV(64, ^uint64(0)), b.Ite(b.Eq(t, u), b.BV(64, 0), b.BV(64, 1)))}, true
		case "IsZero":
			return Scalar{b.Eq(t, b.BV(64, 0))}, true
		case "UnixNano":
			return Scalar{t}, true
		case "Unix":
			return Scalar{b.Bin(OpSdiv, t, b.BV(64, 1000000000))}, true
		case "UnixMilli":
			return Scalar{b.Bin(OpSdiv, t, b.BV(64, 1000000))}, true
		case "UTC", "Local", "Round", "Truncate":
			if name == "UTC" || name == "Local" {
				return self, true
			}
		}
		return Poison{"time.Time." + name + " not modelled"}, true
	case "Timer", "Ticker":
		return e.zeroResults(callee), true
	}
	return nil, false
}
