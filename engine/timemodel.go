package main

import (
	"go/token"

	"golang.org/x/tools/go/ssa"
)

// timeModel: time.Time is abstracted to {wall:0, ext: signed 64-bit nanosecond count, loc:nil}.
func (e *Engine) timeModel(st *State, callee *ssa.Function, name, full string, args []Val, pos token.Pos) (Val, bool) {
	return nil, false
}
