package main

// Solver back end: one persistent `z3 -in` per Solver, queries scoped with
// push/pop, explicit bit-blasting tactic (plain check-sat on the incremental
// core was measured ~200x slower on these formulas). Optional cross-check of
// the same query text with z3-new and cvc5.

import (
	"fmt"
	"os"
	"os/exec"
	"path/filepath"
	"strconv"
	"strings"
	"sync"
	"sync/atomic"
	"time"
)

type Solver struct {
	timeoutMs int
	Queries   int
	Time      time.Duration
	mu        sync.Mutex
	dumpDir   string
	tag       string
	Cross     []CrossResult
	crossOn   bool
	Wins      map[string]int
	cancel    chan struct{} // closed to abandon running queries
}

type CrossResult struct {
	Query  string `json:"query"`
	Z3     string `json:"z3"`
	Z3New  string `json:"z3new,omitempty"`
	CVC5   string `json:"cvc5,omitempty"`
	Agreed bool   `json:"agreed"`
}

func NewSolver(timeoutMs int) *Solver {
	return &Solver{timeoutMs: timeoutMs, Wins: map[string]int{}}
}

func (s *Solver) Close() {}

type QueryResult struct {
	Status string // sat | unsat | unknown | error:...
	Env    *Env   // on sat
	Secs   float64
	Nodes  int
	By     string
}

// strategies of the portfolio: each runs as its own z3 process on the same query text; the first
// definitive answer wins (measured: the explicit bit-blasting pipeline is up to 200x faster than the
// SMT core on parser-style formulas and up to 100x slower on loop/heap-merge formulas).
type strategy struct {
	name, bin, check string
	args             []string
	logic            string
}

func strategiesFor(hasUF, hasArith bool) []strategy {
	bin := os.Getenv("GOSMT_Z3")
	if bin == "" {
		bin = "z3"
	}
	if hasUF {
		return []strategy{
			{name: "z3-smt", bin: bin, check: "(check-sat)"},
			{name: "z3-qfufbv", bin: bin, check: "(check-sat-using (then simplify solve-eqs simplify qfufbv))"},
			{name: "cvc5", bin: "cvc5", check: "(check-sat)", logic: "QF_UFBV"},
		}
	}
	st := []strategy{
		{name: "z3-bitblast", bin: bin, check: "(check-sat-using (then simplify solve-eqs simplify bit-blast sat))"},
		{name: "z3-smt", bin: bin, check: "(check-sat)"},
		{name: "cvc5", bin: "cvc5", check: "(check-sat)", logic: "QF_BV"},
	}
	if hasArith {
		st = append(st, strategy{name: "cvc5-int-blast", bin: "cvc5", check: "(check-sat)", logic: "QF_BV", args: []string{"--solve-bv-as-int=iand"}})
	}
	return st
}

var solverSlots = make(chan struct{}, 16)
var queryFileSeq int64

// Check decides satisfiability of the conjunction of conds.
func (s *Solver) Check(b *Builder, conds []*Term, label string) QueryResult {
	for _, c := range conds {
		if c.IsFalse() {
			return QueryResult{Status: "unsat"}
		}
	}
	allTrue := true
	for _, c := range conds {
		if !c.IsTrue() {
			allTrue = false
		}
	}
	if allTrue {
		return QueryResult{Status: "sat", Env: NewEnv()}
	}
	s.mu.Lock()
	defer s.mu.Unlock()
	t0 := time.Now()
	s.Queries++
	sc := NewScript(b, false)
	for _, c := range conds {
		if !c.IsTrue() {
			sc.Assert(c)
		}
	}
	text := sc.String()
	hasUF := len(sc.UFApps) > 0
	if s.dumpDir != "" {
		os.MkdirAll(s.dumpDir, 0o755)
		os.WriteFile(fmt.Sprintf("%s/%s-q%d-%s.smt2", s.dumpDir, s.tag, s.Queries, sanitize(label)), []byte(text+"(check-sat)\n"), 0o644)
	}
	res := s.portfolio(text, hasUF, sc)
	res.Nodes = sc.nodeCnt
	res.Secs = time.Since(t0).Seconds()
	s.Time += time.Since(t0)
	if s.crossOn && (res.Status == "sat" || res.Status == "unsat") {
		s.cross(text, label, res.Status)
	}
	return res
}

func (s *Solver) portfolio(text string, hasUF bool, sc *Script) QueryResult {
	dir := os.Getenv("GOSMT_BUILD")
	if dir == "" {
		dir = filepath.Join(verifDir, "build")
	}
	dir = filepath.Join(dir, "queries")
	os.MkdirAll(dir, 0o755)
	leaves := append(append([]*Term(nil), sc.Vars...), sc.UFApps...)
	var gv strings.Builder
	for i := 0; i < len(leaves); i += 200 {
		j := i + 200
		if j > len(leaves) {
			j = len(leaves)
		}
		gv.WriteString("(get-value (")
		for _, t := range leaves[i:j] {
			gv.WriteString(sc.ref(t))
			gv.WriteByte(' ')
		}
		gv.WriteString("))\n")
	}
	strats := strategiesFor(hasUF, sc.hasArith)
	type ans struct {
		st  strategy
		out string
		err error
	}
	ch := make(chan ans, len(strats))
	var cmds []*exec.Cmd
	var cmu sync.Mutex
	var files []string
	seq := atomic.AddInt64(&queryFileSeq, 1)
	killed := false
	for _, st := range strats {
		f := filepath.Join(dir, fmt.Sprintf("q%d-%d-%s.smt2", os.Getpid(), seq, st.name))
		files = append(files, f)
		body := "(set-option :produce-models true)\n"
		if st.logic != "" {
			body += "(set-logic " + st.logic + ")\n"
		}
		body += text + st.check + "\n" + gv.String()
		if err := os.WriteFile(f, []byte(body), 0o644); err != nil {
			return QueryResult{Status: "error: " + err.Error()}
		}
		go func(st strategy, f string) {
			solverSlots <- struct{}{}
			defer func() { <-solverSlots }()
			cmu.Lock()
			if killed {
				cmu.Unlock()
				ch <- ans{st, "", fmt.Errorf("cancelled")}
				return
			}
			var cmd *exec.Cmd
			if strings.HasPrefix(st.name, "cvc5") {
				args := append([]string{fmt.Sprintf("--tlimit=%d", s.timeoutMs+1000)}, st.args...)
				cmd = exec.Command(st.bin, append(args, f)...)
			} else {
				cmd = exec.Command(st.bin, fmt.Sprintf("-T:%d", s.timeoutMs/1000+1), "-memory:12000", f)
			}
			cmds = append(cmds, cmd)
			cmu.Unlock()
			out, err := cmd.Output()
			ch <- ans{st, string(out), err}
		}(st, f)
	}
	defer func() {
		for _, f := range files {
			os.Remove(f)
		}
	}()
	var res QueryResult
	res.Status = "unknown"
	got := 0
	var notes []string
	for got < len(strats) {
		var a ans
		if s.cancel != nil {
			select {
			case a = <-ch:
			case <-s.cancel:
				res.Status = "unknown(cancelled)"
				goto finish
			}
		} else {
			a = <-ch
		}
		got++
		first := strings.TrimSpace(a.out)
		rest := ""
		if i := strings.IndexByte(first, '\n'); i >= 0 {
			rest = first[i+1:]
			first = strings.TrimSpace(first[:i])
		}
		if first == "unsat" {
			res = QueryResult{Status: "unsat", By: a.st.name}
			break
		}
		if first == "sat" {
			vals := parseValues(rest)
			if len(vals) != len(leaves) {
				notes = append(notes, fmt.Sprintf("%s: sat but %d values for %d leaves", a.st.name, len(vals), len(leaves)))
				continue
			}
			env := NewEnv()
			for k, t := range leaves {
				env.vals[t] = vals[k]
			}
			res = QueryResult{Status: "sat", Env: env, By: a.st.name}
			break
		}
		if strings.HasPrefix(first, "(error") {
			notes = append(notes, a.st.name+": "+first)
		}
	}
finish:
	cmu.Lock()
	killed = true
	for _, c := range cmds {
		if c.Process != nil {
			c.Process.Kill()
		}
	}
	cmu.Unlock()
	// drain remaining goroutines asynchronously
	go func(n int) {
		for i := 0; i < n; i++ {
			<-ch
		}
	}(len(strats) - got)
	if res.Status == "unknown" && len(notes) > 0 {
		res.Status = "unknown(" + strings.Join(notes, "; ") + ")"
	}
	if res.By != "" {
		s.Wins[res.By]++
	}
	return res
}

// parseValues extracts the values of a get-value reply `((name val) (name val) ...)` in order.
func parseValues(out string) []uint64 {
	var vals []uint64
	// tokenise
	i := 0
	depth := 0
	n := len(out)
	var cur []string
	for i < n {
		c := out[i]
		switch {
		case c == '(':
			depth++
			if depth == 2 {
				cur = nil
			}
			i++
		case c == ')':
			if depth == 2 {
				// cur = [name-tokens..., value-tokens...]; value is at the end
				vals = append(vals, valueOf(cur))
			}
			depth--
			i++
		case c == ' ' || c == '\n' || c == '\t' || c == '\r':
			i++
		default:
			j := i
			for j < n && out[j] != '(' && out[j] != ')' && out[j] != ' ' && out[j] != '\n' {
				j++
			}
			if depth >= 2 {
				cur = append(cur, out[i:j])
			}
			i = j
		}
	}
	return vals
}

func valueOf(toks []string) uint64 {
	if len(toks) == 0 {
		return 0
	}
	last := toks[len(toks)-1]
	switch {
	case last == "true":
		return 1
	case last == "false":
		return 0
	case strings.HasPrefix(last, "#x"):
		v, _ := strconv.ParseUint(last[2:], 16, 64)
		return v
	case strings.HasPrefix(last, "#b"):
		v, _ := strconv.ParseUint(last[2:], 2, 64)
		return v
	}
	// (_ bvN W): tokens "_" "bvN" "W"
	if len(toks) >= 3 && strings.HasPrefix(toks[len(toks)-2], "bv") {
		v, _ := strconv.ParseUint(toks[len(toks)-2][2:], 10, 64)
		return v
	}
	return 0
}

// cross runs the same text through z3-new and cvc5 and records agreement.
func (s *Solver) cross(text, label, z3res string) {
	cr := CrossResult{Query: label, Z3: z3res, Agreed: true}
	dir := os.Getenv("GOSMT_BUILD")
	if dir == "" {
		dir = "/verif/build"
	}
	os.MkdirAll(dir+"/cross", 0o755)
	f := fmt.Sprintf("%s/cross/%s-%d.smt2", dir, s.tag, s.Queries)
	os.WriteFile(f, []byte(text+"(check-sat)\n"), 0o644)
	defer os.Remove(f)
	runOne := func(args ...string) string {
		cmd := exec.Command("timeout", append([]string{"120"}, args...)...)
		out, _ := cmd.Output()
		r := strings.TrimSpace(string(out))
		if i := strings.IndexByte(r, '\n'); i >= 0 {
			r = r[:i]
		}
		if r == "" {
			r = "timeout"
		}
		return r
	}
	cr.Z3New = runOne("z3-new", f)
	f2 := f + ".cvc5"
	os.WriteFile(f2, []byte("(set-logic ALL)\n"+text+"(check-sat)\n"), 0o644)
	cr.CVC5 = runOne("cvc5", f2)
	os.Remove(f2)
	for _, o := range []string{cr.Z3New, cr.CVC5} {
		if (o == "sat" || o == "unsat") && o != z3res {
			cr.Agreed = false
		}
	}
	s.Cross = append(s.Cross, cr)
}
