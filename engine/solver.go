package main

// Solver back end: one persistent `z3 -in` per Solver, queries scoped with
// push/pop, explicit bit-blasting tactic (plain check-sat on the incremental
// core was measured ~200x slower on these formulas). Optional cross-check of
// the same query text with z3-new and cvc5.

import (
	"bufio"
	"fmt"
	"io"
	"os"
	"os/exec"
	"strconv"
	"strings"
	"sync"
	"time"
)

type Solver struct {
	bin       string
	cmd       *exec.Cmd
	in        io.WriteCloser
	out       *bufio.Reader
	timeoutMs int
	Queries   int
	Time      time.Duration
	mu        sync.Mutex
	dumpDir   string
	tag       string
	Cross     []CrossResult
	crossOn   bool
}

type CrossResult struct {
	Query  string `json:"query"`
	Z3     string `json:"z3"`
	Z3New  string `json:"z3new,omitempty"`
	CVC5   string `json:"cvc5,omitempty"`
	Agreed bool   `json:"agreed"`
}

func NewSolver(timeoutMs int) *Solver {
	bin := os.Getenv("GOSMT_Z3")
	if bin == "" {
		bin = "z3"
	}
	s := &Solver{bin: bin, timeoutMs: timeoutMs}
	s.start()
	return s
}

func (s *Solver) start() {
	cmd := exec.Command(s.bin, "-in")
	in, _ := cmd.StdinPipe()
	outp, _ := cmd.StdoutPipe()
	cmd.Stderr = nil
	if err := cmd.Start(); err != nil {
		panic(err)
	}
	s.cmd, s.in, s.out = cmd, in, bufio.NewReaderSize(outp, 1<<20)
	s.send("(set-option :produce-models true)")
}

func (s *Solver) Close() {
	if s.cmd != nil {
		s.in.Close()
		s.cmd.Process.Kill()
		s.cmd.Wait()
		s.cmd = nil
	}
}

func (s *Solver) send(l string) { io.WriteString(s.in, l+"\n") }

// readSexp reads one complete s-expression or atom line.
func (s *Solver) readSexp() (string, error) {
	var sb strings.Builder
	depth := 0
	started := false
	for {
		l, err := s.out.ReadString('\n')
		if err != nil {
			return sb.String(), err
		}
		inStr := false
		for _, c := range l {
			if c == '"' {
				inStr = !inStr
			}
			if inStr {
				continue
			}
			if c == '(' {
				depth++
				started = true
			} else if c == ')' {
				depth--
			}
		}
		sb.WriteString(l)
		if strings.TrimSpace(l) != "" {
			started = true
		}
		if started && depth <= 0 {
			return strings.TrimSpace(sb.String()), nil
		}
	}
}

type QueryResult struct {
	Status string // sat | unsat | unknown | error:...
	Env    *Env   // on sat
	Secs   float64
	Nodes  int
}

func tacticFor(hasUF bool) string {
	if hasUF {
		return "(check-sat-using (then simplify solve-eqs simplify qfufbv))"
	}
	return "(check-sat-using (then simplify solve-eqs simplify bit-blast sat))"
}

// Check decides satisfiability of the conjunction of conds.
func (s *Solver) Check(b *Builder, conds []*Term, label string) QueryResult {
	for _, c := range conds {
		if c.IsFalse() {
			return QueryResult{Status: "unsat"}
		}
	}
	allTrue := true
	for _, c := range conds {
		if !c.IsTrue() {
			allTrue = false
		}
	}
	if allTrue {
		return QueryResult{Status: "sat", Env: NewEnv()}
	}
	s.mu.Lock()
	defer s.mu.Unlock()
	t0 := time.Now()
	s.Queries++
	sc := NewScript(b, false)
	for _, c := range conds {
		if !c.IsTrue() {
			sc.Assert(c)
		}
	}
	text := sc.String()
	hasUF := len(sc.UFApps) > 0
	if s.dumpDir != "" {
		os.MkdirAll(s.dumpDir, 0o755)
		os.WriteFile(fmt.Sprintf("%s/%s-q%d-%s.smt2", s.dumpDir, s.tag, s.Queries, sanitize(label)), []byte(text+"(check-sat)\n"), 0o644)
	}
	res := s.run(text, hasUF, sc)
	res.Nodes = sc.nodeCnt
	res.Secs = time.Since(t0).Seconds()
	s.Time += time.Since(t0)
	if s.crossOn && (res.Status == "sat" || res.Status == "unsat") {
		s.cross(text, label, res.Status)
	}
	return res
}

func (s *Solver) run(text string, hasUF bool, sc *Script) QueryResult {
	s.send("(push)")
	s.send(fmt.Sprintf("(set-option :timeout %d)", s.timeoutMs))
	io.WriteString(s.in, text)
	s.send(tacticFor(hasUF))
	r, err := s.readSexp()
	if err != nil {
		s.Close()
		s.start()
		return QueryResult{Status: "error: solver died: " + err.Error()}
	}
	if strings.HasPrefix(r, "(error") {
		// drain nothing more; retry with plain check-sat
		s.send("(check-sat)")
		r2, err2 := s.readSexp()
		if err2 != nil || strings.HasPrefix(r2, "(error") {
			s.send("(pop)")
			return QueryResult{Status: "error: " + r + " / " + r2}
		}
		r = r2
	}
	res := QueryResult{Status: r}
	if r == "sat" {
		env := NewEnv()
		leaves := append(append([]*Term(nil), sc.Vars...), sc.UFApps...)
		// ask in chunks
		for i := 0; i < len(leaves); i += 200 {
			j := i + 200
			if j > len(leaves) {
				j = len(leaves)
			}
			var names []string
			for _, t := range leaves[i:j] {
				names = append(names, sc.ref(t))
			}
			s.send("(get-value (" + strings.Join(names, " ") + "))")
			out, err := s.readSexp()
			if err != nil || strings.HasPrefix(out, "(error") {
				s.send("(pop)")
				return QueryResult{Status: "error: get-value: " + out}
			}
			vals := parseValues(out)
			if len(vals) != j-i {
				s.send("(pop)")
				return QueryResult{Status: fmt.Sprintf("error: get-value returned %d values for %d names: %.200s", len(vals), j-i, out)}
			}
			for k, t := range leaves[i:j] {
				env.vals[t] = vals[k]
			}
		}
		res.Env = env
	} else if r != "unsat" {
		res.Status = "unknown"
		if r != "unknown" && r != "timeout" {
			res.Status = "unknown(" + r + ")"
		}
	}
	s.send("(pop)")
	return res
}

// parseValues extracts the values of a get-value reply `((name val) (name val) ...)` in order.
func parseValues(out string) []uint64 {
	var vals []uint64
	// tokenise
	i := 0
	depth := 0
	n := len(out)
	var cur []string
	for i < n {
		c := out[i]
		switch {
		case c == '(':
			depth++
			if depth == 2 {
				cur = nil
			}
			i++
		case c == ')':
			if depth == 2 {
				// cur = [name-tokens..., value-tokens...]; value is at the end
				vals = append(vals, valueOf(cur))
			}
			depth--
			i++
		case c == ' ' || c == '\n' || c == '\t' || c == '\r':
			i++
		default:
			j := i
			for j < n && out[j] != '(' && out[j] != ')' && out[j] != ' ' && out[j] != '\n' {
				j++
			}
			if depth >= 2 {
				cur = append(cur, out[i:j])
			}
			i = j
		}
	}
	return vals
}

func valueOf(toks []string) uint64 {
	if len(toks) == 0 {
		return 0
	}
	last := toks[len(toks)-1]
	switch {
	case last == "true":
		return 1
	case last == "false":
		return 0
	case strings.HasPrefix(last, "#x"):
		v, _ := strconv.ParseUint(last[2:], 16, 64)
		return v
	case strings.HasPrefix(last, "#b"):
		v, _ := strconv.ParseUint(last[2:], 2, 64)
		return v
	}
	// (_ bvN W): tokens "_" "bvN" "W"
	if len(toks) >= 3 && strings.HasPrefix(toks[len(toks)-2], "bv") {
		v, _ := strconv.ParseUint(toks[len(toks)-2][2:], 10, 64)
		return v
	}
	return 0
}

// cross runs the same text through z3-new and cvc5 and records agreement.
func (s *Solver) cross(text, label, z3res string) {
	cr := CrossResult{Query: label, Z3: z3res, Agreed: true}
	dir := os.Getenv("GOSMT_BUILD")
	if dir == "" {
		dir = "/verif/build"
	}
	os.MkdirAll(dir+"/cross", 0o755)
	f := fmt.Sprintf("%s/cross/%s-%d.smt2", dir, s.tag, s.Queries)
	os.WriteFile(f, []byte(text+"(check-sat)\n"), 0o644)
	defer os.Remove(f)
	runOne := func(args ...string) string {
		cmd := exec.Command("timeout", append([]string{"120"}, args...)...)
		out, _ := cmd.Output()
		r := strings.TrimSpace(string(out))
		if i := strings.IndexByte(r, '\n'); i >= 0 {
			r = r[:i]
		}
		if r == "" {
			r = "timeout"
		}
		return r
	}
	cr.Z3New = runOne("z3-new", f)
	f2 := f + ".cvc5"
	os.WriteFile(f2, []byte("(set-logic ALL)\n"+text+"(check-sat)\n"), 0o644)
	cr.CVC5 = runOne("cvc5", f2)
	os.Remove(f2)
	for _, o := range []string{cr.Z3New, cr.CVC5} {
		if (o == "sat" || o == "unsat") && o != z3res {
			cr.Agreed = false
		}
	}
	s.Cross = append(s.Cross, cr)
}
