package main

// Hash-consed term DAG over Bool and fixed-width bit-vectors (width 1..64),
// with constant folding, a concrete evaluator and an SMT-LIB2 printer.

import (
	"fmt"
	"math/bits"
	"strings"
)

type Op uint8

const (
	OpConst Op = iota
	OpVar
	OpUF // uninterpreted function application: name + args
	OpNot
	OpAnd
	OpOr
	OpIte
	OpEq
	OpUlt
	OpUle
	OpSlt
	OpSle
	OpAdd
	OpSub
	OpMul
	OpUdiv
	OpUrem
	OpSdiv
	OpSrem
	OpBAnd
	OpBOr
	OpBXor
	OpBNot
	OpNeg
	OpShl
	OpLshr
	OpAshr
	OpConcat
	OpExtract // p1=hi p2=lo
	OpZext    // to width w
	OpSext
)

var opName = map[Op]string{OpNot: "not", OpAnd: "and", OpOr: "or", OpIte: "ite", OpEq: "=", OpUlt: "bvult", OpUle: "bvule",
	OpSlt: "bvslt", OpSle: "bvsle", OpAdd: "bvadd", OpSub: "bvsub", OpMul: "bvmul", OpUdiv: "bvudiv", OpUrem: "bvurem",
	OpSdiv: "bvsdiv", OpSrem: "bvsrem", OpBAnd: "bvand", OpBOr: "bvor", OpBXor: "bvxor", OpBNot: "bvnot", OpNeg: "bvneg",
	OpShl: "bvshl", OpLshr: "bvlshr", OpAshr: "bvashr", OpConcat: "concat"}

// Term: w == 0 means Bool, otherwise a bit-vector of width w (<= 64).
type Term struct {
	id     int
	op     Op
	w      int
	args   []*Term
	val    uint64 // constants
	name   string // vars, UFs
	p1, p2 int
}

func (t *Term) IsConst() bool { return t.op == OpConst }
func (t *Term) IsTrue() bool  { return t.op == OpConst && t.w == 0 && t.val == 1 }
func (t *Term) IsFalse() bool { return t.op == OpConst && t.w == 0 && t.val == 0 }

type termKey struct {
	op         Op
	w          int
	a0, a1, a2 int
	val        uint64
	name       string
	p1, p2     int
}

type Builder struct {
	tab    map[termKey]*Term
	ufTab  map[string]*Term
	n      int
	tt, ff *Term
	vars   []*Term
	ufs    map[string][]int // name -> arg widths..., result width (last)
	ufApps []*Term
	ctree  map[*Term]int // number of leaves if the term is an ite-tree with constant leaves, else 0
	vrange map[*Term][2]uint64 // declared ranges of input variables (assumed in every path that uses them)
	rcache map[*Term][2]uint64
}

// Rng returns an unsigned interval [lo,hi] that always contains the value of t (given the declared variable ranges).
func (b *Builder) Rng(t *Term) (uint64, uint64) {
	if t.op == OpConst {
		return t.val, t.val
	}
	if t.w == 0 {
		return 0, 1
	}
	if r, ok := b.rcache[t]; ok {
		return r[0], r[1]
	}
	if b.rcache == nil {
		b.rcache = map[*Term][2]uint64{}
	}
	full := mask(t.w)
	lo, hi := uint64(0), full
	switch t.op {
	case OpVar:
		if r, ok := b.vrange[t]; ok {
			lo, hi = r[0], r[1]
		}
	case OpIte:
		l1, h1 := b.Rng(t.args[1])
		l2, h2 := b.Rng(t.args[2])
		lo, hi = l1, h1
		if l2 < lo {
			lo = l2
		}
		if h2 > hi {
			hi = h2
		}
	case OpZext:
		lo, hi = b.Rng(t.args[0])
	case OpSext:
		l, h := b.Rng(t.args[0])
		if h < 1<<uint(t.args[0].w-1) {
			lo, hi = l, h
		}
	case OpExtract:
		l, h := b.Rng(t.args[0])
		if h>>uint(t.p2) <= mask(t.w) {
			lo, hi = l>>uint(t.p2), h>>uint(t.p2)
		}
	case OpAdd:
		l1, h1 := b.Rng(t.args[0])
		l2, h2 := b.Rng(t.args[1])
		if h1 <= full-h2 && h1+h2 <= full { // no wrap
			lo, hi = l1+l2, h1+h2
		}
	case OpSub:
		l1, h1 := b.Rng(t.args[0])
		l2, h2 := b.Rng(t.args[1])
		if l1 >= h2 { // never negative
			lo, hi = l1-h2, h1-l2
		}
	case OpBAnd:
		_, h1 := b.Rng(t.args[0])
		_, h2 := b.Rng(t.args[1])
		hi = h1
		if h2 < hi {
			hi = h2
		}
	case OpBOr, OpBXor:
		_, h1 := b.Rng(t.args[0])
		_, h2 := b.Rng(t.args[1])
		m := h1 | h2
		// smallest all-ones mask covering both
		for m&(m+1) != 0 {
			m |= m >> 1
		}
		if m <= full {
			hi = m
		}
		if t.op == OpBOr {
			l1, _ := b.Rng(t.args[0])
			l2, _ := b.Rng(t.args[1])
			lo = l1
			if l2 > lo {
				lo = l2
			}
		}
	case OpLshr:
		if t.args[1].IsConst() && t.args[1].val < 64 {
			l, h := b.Rng(t.args[0])
			lo, hi = l>>t.args[1].val, h>>t.args[1].val
		}
	case OpShl:
		if t.args[1].IsConst() && t.args[1].val < 64 {
			l, h := b.Rng(t.args[0])
			k := t.args[1].val
			if h <= full>>k {
				lo, hi = l<<k, h<<k
			}
		}
	case OpMul:
		l1, h1 := b.Rng(t.args[0])
		l2, h2 := b.Rng(t.args[1])
		if h1 != 0 && h2 <= full/h1 {
			lo, hi = l1*l2, h1*h2
		} else if h1 == 0 {
			lo, hi = 0, 0
		}
	case OpUdiv:
		l1, h1 := b.Rng(t.args[0])
		l2, h2 := b.Rng(t.args[1])
		if l2 > 0 {
			lo, hi = l1/h2, h1/l2
		}
	case OpUrem:
		_, h1 := b.Rng(t.args[0])
		l2, h2 := b.Rng(t.args[1])
		if l2 > 0 {
			hi = h2 - 1
			if h1 < hi {
				hi = h1
			}
		}
	}
	if lo > hi {
		lo, hi = 0, full
	}
	b.rcache[t] = [2]uint64{lo, hi}
	return lo, hi
}

// ClearVarRange removes a declared range (and the cached intervals, which may depend on it).
func (b *Builder) ClearVarRange(v *Term) {
	delete(b.vrange, v)
	b.rcache = nil
}

// SetVarRange declares the range of an input variable.
func (b *Builder) SetVarRange(v *Term, lo, hi uint64) {
	if b.vrange == nil {
		b.vrange = map[*Term][2]uint64{}
	}
	b.vrange[v] = [2]uint64{lo, hi}
	b.rcache = nil
}

const maxConstTree = 48

// constTree reports the number of leaves of t if it is an ite-tree whose leaves are all constants (0 otherwise).
func (b *Builder) constTree(t *Term) int {
	if t.op == OpConst {
		return 1
	}
	if t.op != OpIte {
		return 0
	}
	if n, ok := b.ctree[t]; ok {
		return n
	}
	if b.ctree == nil {
		b.ctree = map[*Term]int{}
	}
	l, r := b.constTree(t.args[1]), b.constTree(t.args[2])
	n := 0
	if l > 0 && r > 0 && l+r <= maxConstTree {
		n = l + r
	}
	b.ctree[t] = n
	return n
}

// mapTree applies f to the constant leaves of an ite-tree.
func (b *Builder) mapTree(t *Term, f func(*Term) *Term) *Term {
	memo := map[*Term]*Term{}
	var rec func(x *Term) *Term
	rec = func(x *Term) *Term {
		if x.op == OpConst {
			return f(x)
		}
		if r, ok := memo[x]; ok {
			return r
		}
		r := b.Ite(x.args[0], rec(x.args[1]), rec(x.args[2]))
		memo[x] = r
		return r
	}
	return rec(t)
}

func (b *Builder) isTree(t *Term) bool { return t.op == OpIte && b.constTree(t) > 1 }


func NewBuilder() *Builder {
	b := &Builder{tab: map[termKey]*Term{}, ufTab: map[string]*Term{}, ufs: map[string][]int{}}
	b.tt = b.intern(&Term{op: OpConst, w: 0, val: 1})
	b.ff = b.intern(&Term{op: OpConst, w: 0, val: 0})
	return b
}

func (b *Builder) intern(t *Term) *Term {
	k := termKey{op: t.op, w: t.w, val: t.val, name: t.name, p1: t.p1, p2: t.p2, a0: -1, a1: -1, a2: -1}
	if len(t.args) > 3 {
		panic("intern: too many args")
	}
	if len(t.args) > 0 {
		k.a0 = t.args[0].id
	}
	if len(t.args) > 1 {
		k.a1 = t.args[1].id
	}
	if len(t.args) > 2 {
		k.a2 = t.args[2].id
	}
	if o, ok := b.tab[k]; ok {
		return o
	}
	b.n++
	t.id = b.n
	b.tab[k] = t
	return t
}

func mask(w int) uint64 {
	if w >= 64 {
		return ^uint64(0)
	}
	return (uint64(1) << uint(w)) - 1
}

func sext64(v uint64, w int) int64 {
	if w >= 64 {
		return int64(v)
	}
	if v&(1<<uint(w-1)) != 0 {
		return int64(v | ^mask(w))
	}
	return int64(v)
}

func (b *Builder) BV(w int, v uint64) *Term {
	if w <= 0 || w > 64 {
		panic(fmt.Sprintf("BV: bad width %d", w))
	}
	return b.intern(&Term{op: OpConst, w: w, val: v & mask(w)})
}
func (b *Builder) Bool(v bool) *Term {
	if v {
		return b.tt
	}
	return b.ff
}
func (b *Builder) True() *Term  { return b.tt }
func (b *Builder) False() *Term { return b.ff }

// Var returns the variable with that name (created on first use).
func (b *Builder) Var(w int, name string) *Term {
	name = sanitize(name)
	k := termKey{op: OpVar, w: w, name: name, a0: -1, a1: -1, a2: -1}
	if o, ok := b.tab[k]; ok {
		return o
	}
	t := b.intern(&Term{op: OpVar, w: w, name: name})
	b.vars = append(b.vars, t)
	return t
}

func sanitize(h string) string {
	var sb strings.Builder
	for _, c := range h {
		if (c >= 'a' && c <= 'z') || (c >= 'A' && c <= 'Z') || (c >= '0' && c <= '9') || c == '_' || c == '.' || c == '#' || c == '[' || c == ']' {
			if c == '[' || c == ']' || c == '#' {
				sb.WriteRune('_')
			} else {
				sb.WriteRune(c)
			}
		}
	}
	if sb.Len() == 0 {
		return "x"
	}
	return sb.String()
}

// UF builds an application of an uninterpreted function (result width w, 0 = Bool).
func (b *Builder) UF(name string, w int, args ...*Term) *Term {
	name = "uf_" + sanitize(name)
	sig := []int{}
	key := name
	for _, a := range args {
		sig = append(sig, a.w)
		key += fmt.Sprintf(",%d", a.id)
	}
	sig = append(sig, w)
	if old, ok := b.ufs[name]; ok {
		if fmt.Sprint(old) != fmt.Sprint(sig) {
			panic("UF " + name + " used with two signatures")
		}
	} else {
		b.ufs[name] = sig
	}
	if t, ok := b.ufTab[key]; ok {
		return t
	}
	b.n++
	t := &Term{id: b.n, op: OpUF, w: w, name: name, args: append([]*Term(nil), args...)}
	b.ufTab[key] = t
	b.ufApps = append(b.ufApps, t)
	return t
}

func (b *Builder) mk(op Op, w int, args ...*Term) *Term {
	return b.intern(&Term{op: op, w: w, args: args})
}

func (b *Builder) Not(a *Term) *Term {
	if a.w != 0 {
		panic("Not on non-bool")
	}
	if a.IsConst() {
		return b.Bool(a.val == 0)
	}
	if a.op == OpNot {
		return a.args[0]
	}
	return b.mk(OpNot, 0, a)
}

func (b *Builder) And(x, y *Term) *Term {
	if x.w != 0 || y.w != 0 {
		panic("And on non-bool")
	}
	if x.IsConst() {
		if x.val == 0 {
			return x
		}
		return y
	}
	if y.IsConst() {
		if y.val == 0 {
			return y
		}
		return x
	}
	if x == y {
		return x
	}
	if (x.op == OpNot && x.args[0] == y) || (y.op == OpNot && y.args[0] == x) {
		return b.ff
	}
	if x.id > y.id {
		x, y = y, x
	}
	return b.mk(OpAnd, 0, x, y)
}

func (b *Builder) Or(x, y *Term) *Term {
	if x.w != 0 || y.w != 0 {
		panic("Or on non-bool")
	}
	if x.IsConst() {
		if x.val == 1 {
			return x
		}
		return y
	}
	if y.IsConst() {
		if y.val == 1 {
			return y
		}
		return x
	}
	if x == y {
		return x
	}
	if (x.op == OpNot && x.args[0] == y) || (y.op == OpNot && y.args[0] == x) {
		return b.tt
	}
	// (p & c) | (p & !c) = p   (frequent when merging diamonds)
	if x.op == OpAnd && y.op == OpAnd {
		for i := 0; i < 2; i++ {
			for j := 0; j < 2; j++ {
				if x.args[i] == y.args[j] {
					ox, oy := x.args[1-i], y.args[1-j]
					if (ox.op == OpNot && ox.args[0] == oy) || (oy.op == OpNot && oy.args[0] == ox) {
						return x.args[i]
					}
				}
			}
		}
	}
	if x.id > y.id {
		x, y = y, x
	}
	return b.mk(OpOr, 0, x, y)
}

func (b *Builder) Implies(x, y *Term) *Term { return b.Or(b.Not(x), y) }

func (b *Builder) Ite(c, x, y *Term) *Term {
	if c.w != 0 {
		panic("Ite cond non-bool")
	}
	if x.w != y.w {
		panic(fmt.Sprintf("Ite width mismatch %d vs %d", x.w, y.w))
	}
	if c.IsConst() {
		if c.val == 1 {
			return x
		}
		return y
	}
	if x == y {
		return x
	}
	if x.w == 0 {
		if x.IsConst() && y.IsConst() {
			if x.val == 1 {
				return c
			}
			return b.Not(c)
		}
		if x.IsTrue() {
			return b.Or(c, y)
		}
		if x.IsFalse() {
			return b.And(b.Not(c), y)
		}
		if y.IsTrue() {
			return b.Or(b.Not(c), x)
		}
		if y.IsFalse() {
			return b.And(c, x)
		}
	}
	if c.op == OpNot {
		return b.Ite(c.args[0], y, x)
	}
	// ite(c, x, ite(c, _, z)) = ite(c, x, z)
	if y.op == OpIte && y.args[0] == c {
		return b.Ite(c, x, y.args[2])
	}
	if x.op == OpIte && x.args[0] == c {
		return b.Ite(c, x.args[1], y)
	}
	return b.mk(OpIte, x.w, c, x, y)
}

func (b *Builder) Eq(x, y *Term) *Term {
	if x.w != y.w {
		panic(fmt.Sprintf("Eq width mismatch %d vs %d", x.w, y.w))
	}
	if x == y {
		return b.tt
	}
	if x.IsConst() && y.IsConst() {
		return b.Bool(x.val == y.val)
	}
	if x.w > 0 {
		lx, hx := b.Rng(x)
		ly, hy := b.Rng(y)
		if hx < ly || hy < lx {
			return b.ff
		}
	}
	if x.w == 0 {
		if x.IsConst() {
			if x.val == 1 {
				return y
			}
			return b.Not(y)
		}
		if y.IsConst() {
			if y.val == 1 {
				return x
			}
			return b.Not(x)
		}
	}
	if y.IsConst() && b.isTree(x) {
		return b.mapTree(x, func(l *Term) *Term { return b.Bool(l.val == y.val) })
	}
	if x.IsConst() && b.isTree(y) {
		return b.mapTree(y, func(l *Term) *Term { return b.Bool(l.val == x.val) })
	}
	// eq(ite(c, k1, k2), k) with constants folds
	if y.IsConst() && x.op == OpIte && x.args[1].IsConst() && x.args[2].IsConst() {
		return b.Ite(x.args[0], b.Bool(x.args[1].val == y.val), b.Bool(x.args[2].val == y.val))
	}
	if x.IsConst() && y.op == OpIte && y.args[1].IsConst() && y.args[2].IsConst() {
		return b.Ite(y.args[0], b.Bool(y.args[1].val == x.val), b.Bool(y.args[2].val == x.val))
	}
	if x.id > y.id {
		x, y = y, x
	}
	return b.mk(OpEq, 0, x, y)
}

func (b *Builder) Cmp(op Op, x, y *Term) *Term {
	if x.w != y.w || x.w == 0 {
		panic(fmt.Sprintf("Cmp width mismatch %d vs %d", x.w, y.w))
	}
	if x.IsConst() && y.IsConst() {
		sx, sy := sext64(x.val, x.w), sext64(y.val, y.w)
		switch op {
		case OpUlt:
			return b.Bool(x.val < y.val)
		case OpUle:
			return b.Bool(x.val <= y.val)
		case OpSlt:
			return b.Bool(sx < sy)
		case OpSle:
			return b.Bool(sx <= sy)
		}
	}
	if x == y {
		return b.Bool(op == OpUle || op == OpSle)
	}
	if y.IsConst() && b.isTree(x) {
		return b.mapTree(x, func(l *Term) *Term { return b.Cmp(op, l, y) })
	}
	if x.IsConst() && b.isTree(y) {
		return b.mapTree(y, func(l *Term) *Term { return b.Cmp(op, x, l) })
	}
	if op == OpUlt || op == OpUle {
		lx, hx := b.Rng(x)
		ly, hy := b.Rng(y)
		if op == OpUlt {
			if hx < ly {
				return b.tt
			}
			if lx >= hy {
				return b.ff
			}
		} else {
			if hx <= ly {
				return b.tt
			}
			if lx > hy {
				return b.ff
			}
		}
	} else {
		// signed comparison of two values known to be non-negative is the unsigned one
		_, hx := b.Rng(x)
		_, hy := b.Rng(y)
		top := uint64(1) << uint(x.w-1)
		if hx < top && hy < top {
			if op == OpSlt {
				return b.Cmp(OpUlt, x, y)
			}
			return b.Cmp(OpUle, x, y)
		}
	}
	if op == OpUlt && y.IsConst() && y.val == 0 {
		return b.ff
	}
	if op == OpUle && x.IsConst() && x.val == 0 {
		return b.tt
	}
	if op == OpUle && y.IsConst() && y.val == mask(y.w) {
		return b.tt
	}
	// zext(a) <u const  where const exceeds a's range
	if (op == OpUlt || op == OpUle) && y.IsConst() && x.op == OpZext {
		iw := x.args[0].w
		if y.val > mask(iw) {
			return b.tt
		}
	}
	return b.mk(op, 0, x, y)
}

func (b *Builder) Ult(x, y *Term) *Term { return b.Cmp(OpUlt, x, y) }
func (b *Builder) Ule(x, y *Term) *Term { return b.Cmp(OpUle, x, y) }
func (b *Builder) Slt(x, y *Term) *Term { return b.Cmp(OpSlt, x, y) }
func (b *Builder) Sle(x, y *Term) *Term { return b.Cmp(OpSle, x, y) }

func foldBin(op Op, w int, x, y uint64) (uint64, bool) {
	switch op {
	case OpAdd:
		return x + y, true
	case OpSub:
		return x - y, true
	case OpMul:
		return x * y, true
	case OpBAnd:
		return x & y, true
	case OpBOr:
		return x | y, true
	case OpBXor:
		return x ^ y, true
	case OpShl:
		if y >= uint64(w) {
			return 0, true
		}
		return x << y, true
	case OpLshr:
		if y >= uint64(w) {
			return 0, true
		}
		return x >> y, true
	case OpAshr:
		sx := sext64(x, w)
		if y >= uint64(w) {
			y = uint64(w - 1)
		}
		return uint64(sx >> y), true
	case OpUdiv:
		if y == 0 {
			return mask(w), true
		}
		return x / y, true
	case OpUrem:
		if y == 0 {
			return x, true
		}
		return x % y, true
	case OpSdiv:
		sx, sy := sext64(x, w), sext64(y, w)
		if sy == 0 {
			if sx < 0 {
				return 1, true
			}
			return mask(w), true
		}
		if sy == -1 {
			return uint64(-sx), true
		}
		return uint64(sx / sy), true
	case OpSrem:
		sx, sy := sext64(x, w), sext64(y, w)
		if sy == 0 {
			return x, true
		}
		if sy == -1 {
			return 0, true
		}
		return uint64(sx % sy), true
	}
	return 0, false
}

func (b *Builder) Bin(op Op, x, y *Term) *Term {
	if x.w != y.w || x.w == 0 {
		panic(fmt.Sprintf("Bin %s width mismatch %d vs %d", opName[op], x.w, y.w))
	}
	w := x.w
	if x.IsConst() && y.IsConst() {
		if v, ok := foldBin(op, w, x.val, y.val); ok {
			return b.BV(w, v)
		}
	}
	if y.IsConst() && b.isTree(x) {
		return b.mapTree(x, func(l *Term) *Term { return b.Bin(op, l, y) })
	}
	if x.IsConst() && b.isTree(y) {
		return b.mapTree(y, func(l *Term) *Term { return b.Bin(op, x, l) })
	}
	switch op {
	case OpAdd, OpBOr, OpBXor:
		if x.IsConst() && x.val == 0 {
			return y
		}
		if y.IsConst() && y.val == 0 {
			return x
		}
		if op == OpBOr && x == y {
			return x
		}
		if op == OpBXor && x == y {
			return b.BV(w, 0)
		}
		// (a + k1) + k2
		if op == OpAdd && y.IsConst() && x.op == OpAdd && x.args[1].IsConst() {
			return b.Bin(OpAdd, x.args[0], b.BV(w, x.args[1].val+y.val))
		}
		if op == OpAdd && x.IsConst() {
			x, y = y, x
			if x.op == OpAdd && x.args[1].IsConst() {
				return b.Bin(OpAdd, x.args[0], b.BV(w, x.args[1].val+y.val))
			}
		}
	case OpSub:
		if y.IsConst() && y.val == 0 {
			return x
		}
		if x == y {
			return b.BV(w, 0)
		}
		if y.IsConst() {
			return b.Bin(OpAdd, x, b.BV(w, -y.val))
		}
	case OpShl, OpLshr, OpAshr:
		if y.IsConst() && y.val == 0 {
			return x
		}
		if x.IsConst() && x.val == 0 {
			return x
		}
		if y.IsConst() && y.val >= uint64(w) && op != OpAshr {
			return b.BV(w, 0)
		}
	case OpBAnd:
		if x.IsConst() && x.val == 0 {
			return x
		}
		if y.IsConst() && y.val == 0 {
			return y
		}
		if x.IsConst() && x.val == mask(w) {
			return y
		}
		if y.IsConst() && y.val == mask(w) {
			return x
		}
		if x == y {
			return x
		}
		// zext(a) & low-mask covering a
		if y.IsConst() && x.op == OpZext && y.val&mask(x.args[0].w) == mask(x.args[0].w) {
			return x
		}
	case OpMul:
		if x.IsConst() && x.val == 1 {
			return y
		}
		if y.IsConst() && y.val == 1 {
			return x
		}
		if (x.IsConst() && x.val == 0) || (y.IsConst() && y.val == 0) {
			return b.BV(w, 0)
		}
		// multiply by power of two -> shift
		if y.IsConst() && bits.OnesCount64(y.val) == 1 {
			return b.Bin(OpShl, x, b.BV(w, uint64(bits.TrailingZeros64(y.val))))
		}
		if x.IsConst() && bits.OnesCount64(x.val) == 1 {
			return b.Bin(OpShl, y, b.BV(w, uint64(bits.TrailingZeros64(x.val))))
		}
	case OpUdiv:
		if y.IsConst() && y.val == 1 {
			return x
		}
		if y.IsConst() && bits.OnesCount64(y.val) == 1 {
			return b.Bin(OpLshr, x, b.BV(w, uint64(bits.TrailingZeros64(y.val))))
		}
	case OpUrem:
		if y.IsConst() && bits.OnesCount64(y.val) == 1 {
			return b.Bin(OpBAnd, x, b.BV(w, y.val-1))
		}
	}
	if op == OpAdd || op == OpMul || op == OpBAnd || op == OpBOr || op == OpBXor {
		// canonical order: constants last
		if x.IsConst() || (!y.IsConst() && x.id > y.id) {
			x, y = y, x
		}
	}
	return b.mk(op, w, x, y)
}

func (b *Builder) Add(x, y *Term) *Term { return b.Bin(OpAdd, x, y) }
func (b *Builder) Sub(x, y *Term) *Term { return b.Bin(OpSub, x, y) }

func (b *Builder) BNot(a *Term) *Term {
	if a.IsConst() {
		return b.BV(a.w, ^a.val)
	}
	if b.isTree(a) {
		return b.mapTree(a, func(l *Term) *Term { return b.BNot(l) })
	}
	if a.op == OpBNot {
		return a.args[0]
	}
	return b.mk(OpBNot, a.w, a)
}
func (b *Builder) Neg(a *Term) *Term {
	if a.IsConst() {
		return b.BV(a.w, -a.val)
	}
	if b.isTree(a) {
		return b.mapTree(a, func(l *Term) *Term { return b.Neg(l) })
	}
	return b.mk(OpNeg, a.w, a)
}

func (b *Builder) Extract(a *Term, hi, lo int) *Term {
	if hi < lo || hi >= a.w || lo < 0 {
		panic(fmt.Sprintf("Extract [%d:%d] of width %d", hi, lo, a.w))
	}
	w := hi - lo + 1
	if w == a.w {
		return a
	}
	if a.IsConst() {
		return b.BV(w, a.val>>uint(lo))
	}
	if b.isTree(a) {
		return b.mapTree(a, func(l *Term) *Term { return b.Extract(l, hi, lo) })
	}
	switch a.op {
	case OpZext, OpSext:
		in := a.args[0]
		if hi < in.w {
			return b.Extract(in, hi, lo)
		}
		if a.op == OpZext && lo >= in.w {
			return b.BV(w, 0)
		}
		if a.op == OpZext && lo < in.w && hi >= in.w {
			return b.Zext(b.Extract(in, in.w-1, lo), w)
		}
	case OpConcat:
		lw := a.args[1].w
		if hi < lw {
			return b.Extract(a.args[1], hi, lo)
		}
		if lo >= lw {
			return b.Extract(a.args[0], hi-lw, lo-lw)
		}
	case OpExtract:
		return b.Extract(a.args[0], hi+a.p2, lo+a.p2)
	case OpIte:
		if a.args[1].IsConst() || a.args[2].IsConst() {
			return b.Ite(a.args[0], b.Extract(a.args[1], hi, lo), b.Extract(a.args[2], hi, lo))
		}
	case OpBAnd, OpBOr, OpBXor:
		if a.args[1].IsConst() {
			return b.Bin(a.op, b.Extract(a.args[0], hi, lo), b.Extract(a.args[1], hi, lo))
		}
	case OpShl:
		// extract of (x << k): low bits are zero / shifted bits of x
		if a.args[1].IsConst() {
			k := int(a.args[1].val)
			if hi < k {
				return b.BV(w, 0)
			}
			if lo >= k {
				return b.Extract(a.args[0], hi-k, lo-k)
			}
		}
	case OpLshr:
		if a.args[1].IsConst() {
			k := int(a.args[1].val)
			if hi+k < a.w {
				return b.Extract(a.args[0], hi+k, lo+k)
			}
			if lo+k >= a.w {
				return b.BV(w, 0)
			}
		}
	}
	return b.intern(&Term{op: OpExtract, w: w, args: []*Term{a}, p1: hi, p2: lo})
}

func (b *Builder) Concat(hi, lo *Term) *Term {
	w := hi.w + lo.w
	if w > 64 {
		panic("Concat wider than 64")
	}
	if hi.IsConst() && lo.IsConst() {
		return b.BV(w, hi.val<<uint(lo.w)|lo.val)
	}
	if hi.IsConst() && hi.val == 0 {
		return b.Zext(lo, w)
	}
	return b.mk(OpConcat, w, hi, lo)
}

func (b *Builder) Zext(a *Term, w int) *Term {
	if a.w == 0 {
		panic("Zext of bool")
	}
	if w == a.w {
		return a
	}
	if w < a.w {
		return b.Extract(a, w-1, 0)
	}
	if a.IsConst() {
		return b.BV(w, a.val)
	}
	if b.isTree(a) {
		return b.mapTree(a, func(l *Term) *Term { return b.Zext(l, w) })
	}
	if a.op == OpZext {
		return b.Zext(a.args[0], w)
	}
	if a.op == OpIte && (a.args[1].IsConst() || a.args[2].IsConst()) {
		return b.Ite(a.args[0], b.Zext(a.args[1], w), b.Zext(a.args[2], w))
	}
	return b.intern(&Term{op: OpZext, w: w, args: []*Term{a}})
}

func (b *Builder) Sext(a *Term, w int) *Term {
	if w == a.w {
		return a
	}
	if w < a.w {
		return b.Extract(a, w-1, 0)
	}
	if a.IsConst() {
		return b.BV(w, uint64(sext64(a.val, a.w)))
	}
	if b.isTree(a) {
		return b.mapTree(a, func(l *Term) *Term { return b.Sext(l, w) })
	}
	if a.op == OpZext { // zero-extended value is non-negative
		return b.Zext(a.args[0], w)
	}
	return b.intern(&Term{op: OpSext, w: w, args: []*Term{a}})
}

// Resize converts to width w; signed selects sign extension when widening.
func (b *Builder) Resize(a *Term, w int, signed bool) *Term {
	if signed {
		return b.Sext(a, w)
	}
	return b.Zext(a, w)
}

// BoolToBV gives 1/0 of width w.
func (b *Builder) BoolToBV(c *Term, w int) *Term { return b.Ite(c, b.BV(w, 1), b.BV(w, 0)) }

// AndN / OrN fold lists.
func (b *Builder) AndN(ts []*Term) *Term {
	r := b.tt
	for _, t := range ts {
		r = b.And(r, t)
	}
	return r
}
func (b *Builder) OrN(ts []*Term) *Term {
	r := b.ff
	for _, t := range ts {
		r = b.Or(r, t)
	}
	return r
}

// ---------------------------------------------------------------------------
// Concrete evaluation under an environment (variables and UF applications).

type Env struct {
	vals map[*Term]uint64 // OpVar and OpUF leaves; missing = 0
	memo map[*Term]uint64
}

func NewEnv() *Env { return &Env{vals: map[*Term]uint64{}, memo: map[*Term]uint64{}} }

func (e *Env) Eval(t *Term) uint64 {
	if t.op == OpConst {
		return t.val
	}
	if v, ok := e.memo[t]; ok {
		return v
	}
	// iterative post-order to avoid deep recursion
	type fr struct {
		t *Term
		i int
	}
	stack := []fr{{t, 0}}
	for len(stack) > 0 {
		top := &stack[len(stack)-1]
		tt := top.t
		if _, ok := e.memo[tt]; ok || tt.op == OpConst {
			stack = stack[:len(stack)-1]
			continue
		}
		if tt.op == OpVar || tt.op == OpUF {
			e.memo[tt] = e.vals[tt] & maskB(tt.w)
			stack = stack[:len(stack)-1]
			continue
		}
		if top.i < len(tt.args) {
			a := tt.args[top.i]
			top.i++
			if _, ok := e.memo[a]; !ok && a.op != OpConst {
				stack = append(stack, fr{a, 0})
			}
			continue
		}
		e.memo[tt] = e.compute(tt)
		stack = stack[:len(stack)-1]
	}
	return e.memo[t]
}

func maskB(w int) uint64 {
	if w == 0 {
		return 1
	}
	return mask(w)
}

func (e *Env) get(t *Term) uint64 {
	if t.op == OpConst {
		return t.val
	}
	return e.memo[t]
}

func (e *Env) compute(t *Term) uint64 {
	a := func(i int) uint64 { return e.get(t.args[i]) }
	b2u := func(b bool) uint64 {
		if b {
			return 1
		}
		return 0
	}
	switch t.op {
	case OpNot:
		return a(0) ^ 1
	case OpAnd:
		return a(0) & a(1)
	case OpOr:
		return a(0) | a(1)
	case OpIte:
		if a(0) == 1 {
			return a(1)
		}
		return a(2)
	case OpEq:
		return b2u(a(0) == a(1))
	case OpUlt:
		return b2u(a(0) < a(1))
	case OpUle:
		return b2u(a(0) <= a(1))
	case OpSlt:
		w := t.args[0].w
		return b2u(sext64(a(0), w) < sext64(a(1), w))
	case OpSle:
		w := t.args[0].w
		return b2u(sext64(a(0), w) <= sext64(a(1), w))
	case OpBNot:
		return ^a(0) & mask(t.w)
	case OpNeg:
		return -a(0) & mask(t.w)
	case OpConcat:
		return (a(0)<<uint(t.args[1].w) | a(1)) & mask(t.w)
	case OpExtract:
		return (a(0) >> uint(t.p2)) & mask(t.w)
	case OpZext:
		return a(0)
	case OpSext:
		return uint64(sext64(a(0), t.args[0].w)) & mask(t.w)
	default:
		v, ok := foldBin(t.op, t.w, a(0), a(1))
		if !ok {
			panic("eval: op " + opName[t.op])
		}
		return v & mask(t.w)
	}
}

// ---------------------------------------------------------------------------
// SMT-LIB printing

func sortStr(w int) string {
	if w == 0 {
		return "Bool"
	}
	return fmt.Sprintf("(_ BitVec %d)", w)
}

func constStr(t *Term) string {
	if t.w == 0 {
		if t.val == 1 {
			return "true"
		}
		return "false"
	}
	return fmt.Sprintf("(_ bv%d %d)", t.val, t.w)
}

// Script renders the definitions needed for the given roots. Every non-leaf
// node becomes `(declare-const tN S) (assert (= tN expr))` (z3 4.8.12 inlines
// define-fun bodies as trees; this keeps the DAG linear).
type Script struct {
	b       *Builder
	sb      strings.Builder
	done    map[*Term]bool
	ufDecl  map[string]bool
	Vars    []*Term
	UFApps  []*Term
	defFun  bool
	nodeCnt int
	hasArith bool // symbolic multiplication/division present
}

func NewScript(b *Builder, defineFun bool) *Script {
	return &Script{b: b, done: map[*Term]bool{}, ufDecl: map[string]bool{}, defFun: defineFun}
}

func (s *Script) ref(t *Term) string {
	switch t.op {
	case OpConst:
		return constStr(t)
	case OpVar:
		return t.name
	}
	return fmt.Sprintf("t%d", t.id)
}

func (s *Script) Define(root *Term) {
	if s.done[root] || root.op == OpConst {
		return
	}
	type fr struct {
		t *Term
		i int
	}
	stack := []fr{{root, 0}}
	for len(stack) > 0 {
		top := &stack[len(stack)-1]
		t := top.t
		if s.done[t] || t.op == OpConst {
			stack = stack[:len(stack)-1]
			continue
		}
		if top.i < len(t.args) {
			a := t.args[top.i]
			top.i++
			if !s.done[a] && a.op != OpConst {
				stack = append(stack, fr{a, 0})
			}
			continue
		}
		s.emit(t)
		s.done[t] = true
		stack = stack[:len(stack)-1]
	}
}

func (s *Script) emit(t *Term) {
	s.nodeCnt++
	switch t.op {
	case OpMul, OpUdiv, OpUrem, OpSdiv, OpSrem:
		s.hasArith = true
	}
	if t.op == OpVar {
		fmt.Fprintf(&s.sb, "(declare-const %s %s)\n", t.name, sortStr(t.w))
		s.Vars = append(s.Vars, t)
		return
	}
	var expr string
	switch t.op {
	case OpUF:
		if !s.ufDecl[t.name] {
			s.ufDecl[t.name] = true
			sig := s.b.ufs[t.name]
			var as []string
			for _, w := range sig[:len(sig)-1] {
				as = append(as, sortStr(w))
			}
			fmt.Fprintf(&s.sb, "(declare-fun %s (%s) %s)\n", t.name, strings.Join(as, " "), sortStr(sig[len(sig)-1]))
		}
		s.UFApps = append(s.UFApps, t)
		if len(t.args) == 0 {
			expr = t.name
		} else {
			var as []string
			for _, a := range t.args {
				as = append(as, s.ref(a))
			}
			expr = "(" + t.name + " " + strings.Join(as, " ") + ")"
		}
	case OpExtract:
		expr = fmt.Sprintf("((_ extract %d %d) %s)", t.p1, t.p2, s.ref(t.args[0]))
	case OpZext:
		expr = fmt.Sprintf("((_ zero_extend %d) %s)", t.w-t.args[0].w, s.ref(t.args[0]))
	case OpSext:
		expr = fmt.Sprintf("((_ sign_extend %d) %s)", t.w-t.args[0].w, s.ref(t.args[0]))
	default:
		var as []string
		for _, a := range t.args {
			as = append(as, s.ref(a))
		}
		expr = "(" + opName[t.op] + " " + strings.Join(as, " ") + ")"
	}
	if s.defFun {
		fmt.Fprintf(&s.sb, "(define-fun t%d () %s %s)\n", t.id, sortStr(t.w), expr)
	} else {
		fmt.Fprintf(&s.sb, "(declare-const t%d %s)\n(assert (= t%d %s))\n", t.id, sortStr(t.w), t.id, expr)
	}
}

func (s *Script) Assert(t *Term) {
	s.Define(t)
	fmt.Fprintf(&s.sb, "(assert %s)\n", s.ref(t))
}

func (s *Script) String() string { return s.sb.String() }
