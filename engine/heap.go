package main

import (
	"fmt"
	"go/token"
	"go/types"
	"strconv"
)

var sizes = types.SizesFor("gc", "amd64")

// viewResolve follows a field/index path through type t starting at byte offset off.
func (e *Engine) viewResolve(off *Term, t types.Type, path []PathEl) (*Term, types.Type, bool) {
	for _, pe := range path {
		switch u := t.Underlying().(type) {
		case *types.Struct:
			if pe.field < 0 || pe.field >= u.NumFields() {
				return nil, nil, false
			}
			var fs []*types.Var
			for i := 0; i < u.NumFields(); i++ {
				fs = append(fs, u.Field(i))
			}
			offs := sizes.Offsetsof(fs)
			off = e.b.Add(off, e.b.BV(64, uint64(offs[pe.field])))
			t = u.Field(pe.field).Type()
		case *types.Array:
			if pe.field != -1 {
				return nil, nil, false
			}
			sz := sizes.Sizeof(u.Elem())
			off = e.b.Add(off, e.b.Bin(OpMul, pe.idx, e.b.BV(64, uint64(sz))))
			t = u.Elem()
		default:
			return nil, nil, false
		}
	}
	return off, t, true
}

// viewRead reads a value of type t from the byte array av at byte offset off (little endian).
func (e *Engine) viewRead(av ArrayV, off *Term, t types.Type) Val {
	switch u := t.Underlying().(type) {
	case *types.Basic:
		w := e.width(t)
		if w <= 0 {
			if w == 0 {
				b0 := e.getPath(av, []PathEl{{field: -1, idx: off}})
				if s, ok := b0.(Scalar); ok {
					return Scalar{e.b.Not(e.b.Eq(s.t, e.b.BV(8, 0)))}
				}
			}
			return Poison{"typed view of " + t.String()}
		}
		var r *Term
		for k := 0; k < w/8; k++ {
			bv := e.getPath(av, []PathEl{{field: -1, idx: e.b.Add(off, e.b.BV(64, uint64(k)))}})
			s, ok := bv.(Scalar)
			if !ok || s.t.w != 8 {
				return Poison{"typed view over non-byte array"}
			}
			if r == nil {
				r = s.t
			} else {
				r = e.b.Concat(s.t, r)
			}
		}
		return Scalar{r}
	case *types.Struct:
		sv := StructV{f: make([]Val, u.NumFields())}
		var fs []*types.Var
		for i := 0; i < u.NumFields(); i++ {
			fs = append(fs, u.Field(i))
		}
		offs := sizes.Offsetsof(fs)
		for i := range sv.f {
			sv.f[i] = e.viewRead(av, e.b.Add(off, e.b.BV(64, uint64(offs[i]))), u.Field(i).Type())
		}
		return sv
	case *types.Array:
		sz := sizes.Sizeof(u.Elem())
		r := ArrayV{e: make([]Val, u.Len())}
		for i := range r.e {
			r.e[i] = e.viewRead(av, e.b.Add(off, e.b.BV(64, uint64(int64(i)*sz))), u.Elem())
		}
		return r
	}
	return Poison{"typed view of " + t.String()}
}

// viewWrite writes v of type t into the byte array at byte offset off.
func (e *Engine) viewWrite(av ArrayV, off *Term, t types.Type, v Val) Val {
	switch u := t.Underlying().(type) {
	case *types.Basic:
		s, ok := v.(Scalar)
		if !ok {
			return Poison{"typed view write of non-scalar"}
		}
		tt := s.t
		if tt.w == 0 {
			tt = e.b.BoolToBV(tt, 8)
		}
		var cur Val = av
		for k := 0; k < tt.w/8; k++ {
			cur = e.setPath(cur, []PathEl{{field: -1, idx: e.b.Add(off, e.b.BV(64, uint64(k)))}}, Scalar{e.b.Extract(tt, 8*k+7, 8*k)})
		}
		return cur
	case *types.Struct:
		sv, ok := v.(StructV)
		if !ok {
			return Poison{"typed view write: struct expected"}
		}
		var fs []*types.Var
		for i := 0; i < u.NumFields(); i++ {
			fs = append(fs, u.Field(i))
		}
		offs := sizes.Offsetsof(fs)
		var cur Val = av
		for i := range sv.f {
			a, ok := cur.(ArrayV)
			if !ok {
				return cur
			}
			cur = e.viewWrite(a, e.b.Add(off, e.b.BV(64, uint64(offs[i]))), u.Field(i).Type(), sv.f[i])
		}
		return cur
	case *types.Array:
		arr, ok := v.(ArrayV)
		if !ok {
			return Poison{"typed view write: array expected"}
		}
		sz := sizes.Sizeof(u.Elem())
		var cur Val = av
		for i := range arr.e {
			a, ok := cur.(ArrayV)
			if !ok {
				return cur
			}
			cur = e.viewWrite(a, e.b.Add(off, e.b.BV(64, uint64(int64(i)*sz))), u.Elem(), arr.e[i])
		}
		return cur
	}
	return Poison{"typed view write of " + t.String()}
}

type cell struct {
	v     Val
	stamp int
}

// alloc creates a heap object. Object identity is the allocation event (call stack, block, instruction,
// loop iteration counters, n-th allocation of that instruction): two states that reach the same event get the
// same object id, so that after a join their pointers merge structurally instead of becoming Unions.
func (e *Engine) alloc(st *State, v Val) int {
	e.nstamp++
	var kb []byte
	for _, f := range st.frames {
		kb = strconv.AppendInt(kb, int64(f.fnID), 36)
		kb = append(kb, ':')
		if f.blk != nil {
			kb = strconv.AppendInt(kb, int64(f.blk.Index), 36)
		}
		kb = append(kb, ':')
		kb = strconv.AppendInt(kb, int64(f.ip), 36)
		kb = append(kb, ':')
		kb = strconv.AppendInt(kb, int64(f.sub), 36)
		if len(f.iters) > 0 {
			fi := e.finfo(f.fn)
			for _, h := range fi.loopsOf[f.blk] {
				kb = append(kb, '@')
				kb = strconv.AppendInt(kb, int64(f.iters[h]), 36)
			}
		}
		kb = append(kb, '/')
	}
	kb = append(kb, '#')
	kb = strconv.AppendInt(kb, int64(e.allocSub), 36)
	if e.inInit {
		kb = append(kb, 'i')
	}
	e.allocSub++
	key := string(kb)
	id, ok := e.siteIDs[key]
	if ok {
		if _, live := st.heap[id]; live {
			ok = false // same event seen twice on one path (should not happen): fall back to a fresh object
		}
	}
	if !ok {
		e.nobj++
		id = e.nobj
		if _, dup := e.siteIDs[key]; !dup {
			e.siteIDs[key] = id
		}
	}
	st.heap[id] = cell{v, e.nstamp}
	return id
}

func (e *Engine) cellOf(st *State, obj int) (cell, bool) {
	if c, ok := st.heap[obj]; ok {
		return c, true
	}
	if st != e.initState && e.initState != nil {
		if c, ok := e.initState.heap[obj]; ok {
			return c, true
		}
	}
	return cell{}, false
}

func (e *Engine) objVal(st *State, obj int) Val {
	c, ok := e.cellOf(st, obj)
	if !ok {
		return Poison{fmt.Sprintf("dangling object %d", obj)}
	}
	return c.v
}

func (e *Engine) setObj(st *State, obj int, v Val) {
	e.nstamp++
	st.heap[obj] = cell{v, e.nstamp}
}

// ---------- path access inside one object ----------

func (e *Engine) getPath(v Val, path []PathEl) Val {
	if len(path) == 0 {
		return v
	}
	if p, ok := v.(Poison); ok {
		return p
	}
	p := path[0]
	if p.field >= 0 {
		sv, ok := v.(StructV)
		if !ok || p.field >= len(sv.f) {
			return Poison{fmt.Sprintf("getPath: field %d of %T", p.field, v)}
		}
		return e.getPath(sv.f[p.field], path[1:])
	}
	av, ok := v.(ArrayV)
	if !ok {
		if u, isU := v.(Union); isU {
			// arrays of different length merged under a guard (e.g. results of make with different sizes)
			return e.mapUnion(u, func(x Val) Val { return e.getPath(x, path) })
		}
		return Poison{fmt.Sprintf("getPath: index into %T", v)}
	}
	if p.field == -3 {
		off, t, ok := e.viewResolve(p.idx, p.typ, path[1:])
		if !ok {
			return Poison{"typed view: unsupported path"}
		}
		return e.viewRead(av, off, t)
	}
	if p.field == -2 {
		sub := ArrayV{e: make([]Val, p.n)}
		for k := 0; k < p.n; k++ {
			sub.e[k] = e.getPath(av, []PathEl{{field: -1, idx: e.b.Add(p.idx, e.b.BV(64, uint64(k)))}})
		}
		return e.getPath(sub, path[1:])
	}
	if p.idx.IsConst() {
		if p.idx.val >= uint64(len(av.e)) {
			// only reachable in states whose bounds guard already failed (infeasible path): any value will do
			if len(av.e) > 0 {
				return e.getPath(e.zeroLike(av.e[0]), path[1:])
			}
			return Poison{"getPath: constant index out of range"}
		}
		return e.getPath(av.e[p.idx.val], path[1:])
	}
	if len(av.e) == 0 {
		return Poison{"getPath: index into empty array"}
	}
	lo, hi := e.idxRange(p.idx, len(av.e))
	var r Val
	for i := hi; i >= lo; i-- {
		ev := e.getPath(av.e[i], path[1:])
		if r == nil {
			r = ev
			continue
		}
		r = e.mergeVal(e.b.Eq(p.idx, e.b.BV(64, uint64(i))), ev, r)
	}
	return r
}

// idxRange gives a conservative concrete range [lo,hi] for a symbolic index
// (syntactic: base + constant offsets of ite-chains are not analysed; default full range).
func (e *Engine) idxRange(idx *Term, n int) (int, int) {
	lo, hi := 0, n-1
	if l, h, ok := e.termRange(idx, 0); ok {
		if l > uint64(lo) && l < uint64(n) {
			lo = int(l)
		}
		if h < uint64(hi) {
			hi = int(h)
		}
		if lo > hi {
			lo, hi = 0, n-1
		}
	}
	return lo, hi
}

// termRange computes a cheap unsigned interval for a term (no wrap-around cases).
type rangeRes struct {
	lo, hi uint64
	ok     bool
}

func (e *Engine) termRange(t *Term, depth int) (uint64, uint64, bool) {
	if t.IsConst() {
		return t.val, t.val, true
	}
	if lo, hi := e.b.Rng(t); hi < 1<<40 {
		return lo, hi, true
	}
	if r, ok := e.rangeCache[t]; ok {
		return r.lo, r.hi, r.ok
	}
	if depth > 200 {
		return 0, 0, false
	}
	l, h, ok := e.termRange1(t, depth)
	if e.rangeCache == nil {
		e.rangeCache = map[*Term]rangeRes{}
	}
	e.rangeCache[t] = rangeRes{l, h, ok}
	return l, h, ok
}

func (e *Engine) termRange1(t *Term, depth int) (uint64, uint64, bool) {
	switch t.op {
	case OpIte:
		l1, h1, ok1 := e.termRange(t.args[1], depth+1)
		l2, h2, ok2 := e.termRange(t.args[2], depth+1)
		if ok1 && ok2 {
			if l2 < l1 {
				l1 = l2
			}
			if h2 > h1 {
				h1 = h2
			}
			return l1, h1, true
		}
	case OpZext:
		if l, h, ok := e.termRange(t.args[0], depth+1); ok {
			return l, h, true
		}
		return 0, mask(t.args[0].w), true
	case OpAdd:
		l1, h1, ok1 := e.termRange(t.args[0], depth+1)
		l2, h2, ok2 := e.termRange(t.args[1], depth+1)
		if ok1 && ok2 && h1 < 1<<40 && h2 < 1<<40 {
			return l1 + l2, h1 + h2, true
		}
	case OpBAnd:
		if t.args[1].IsConst() {
			return 0, t.args[1].val, true
		}
	case OpExtract:
		return 0, mask(t.w), true
	case OpVar:
		if r, ok := e.varRange[t]; ok {
			return r[0], r[1], true
		}
	case OpUdiv, OpSdiv:
		if t.args[1].IsConst() && t.args[1].val > 0 && t.args[1].val < 1<<31 {
			if l, h, ok := e.termRange(t.args[0], depth+1); ok && h < 1<<62 {
				return l / t.args[1].val, h / t.args[1].val, true
			}
		}
	case OpSext:
		if l, h, ok := e.termRange(t.args[0], depth+1); ok && h < 1<<uint(t.args[0].w-1) {
			return l, h, true
		}
	case OpLshr:
		if t.args[1].IsConst() {
			if _, h, ok := e.termRange(t.args[0], depth+1); ok {
				return 0, h >> t.args[1].val, true
			}
		}
	case OpShl:
		if t.args[1].IsConst() && t.args[1].val < 16 {
			if l, h, ok := e.termRange(t.args[0], depth+1); ok && h < 1<<40 {
				return l << t.args[1].val, h << t.args[1].val, true
			}
		}
	}
	return 0, 0, false
}

func (e *Engine) setPath(v Val, path []PathEl, nv Val) Val {
	if len(path) == 0 {
		return nv
	}
	if p, ok := v.(Poison); ok {
		return p
	}
	p := path[0]
	if p.field >= 0 {
		sv, ok := v.(StructV)
		if !ok || p.field >= len(sv.f) {
			return Poison{fmt.Sprintf("setPath: field %d of %T", p.field, v)}
		}
		r := StructV{f: append([]Val(nil), sv.f...)}
		r.f[p.field] = e.setPath(sv.f[p.field], path[1:], nv)
		return r
	}
	av, ok := v.(ArrayV)
	if !ok {
		if u, isU := v.(Union); isU {
			// arrays of different shapes merged under guards: update every alternative
			nu := Union{alts: make([]Alt, len(u.alts))}
			for i, a := range u.alts {
				nu.alts[i] = Alt{a.g, e.setPath(a.v, path, nv)}
			}
			return nu
		}
		return Poison{fmt.Sprintf("setPath: index into %T", v)}
	}
	if p.field == -3 {
		off, t, ok := e.viewResolve(p.idx, p.typ, path[1:])
		if !ok {
			return Poison{"typed view: unsupported path"}
		}
		return e.viewWrite(av, off, t, nv)
	}
	if p.field == -2 {
		sub := e.getPath(av, []PathEl{p})
		nsub, ok := e.setPath(sub, path[1:], nv).(ArrayV)
		if !ok {
			return Poison{"setPath: view"}
		}
		var cur Val = av
		for k := 0; k < p.n; k++ {
			cur = e.setPath(cur, []PathEl{{field: -1, idx: e.b.Add(p.idx, e.b.BV(64, uint64(k)))}}, nsub.e[k])
		}
		return cur
	}
	r := ArrayV{e: append([]Val(nil), av.e...)}
	if p.idx.IsConst() {
		if p.idx.val >= uint64(len(av.e)) {
			return r // infeasible path (the bounds guard is in the path condition): leave the array unchanged
		}
		r.e[p.idx.val] = e.setPath(av.e[p.idx.val], path[1:], nv)
		return r
	}
	if len(av.e) == 0 {
		return r
	}
	lo, hi := e.idxRange(p.idx, len(av.e))
	for i := lo; i <= hi; i++ {
		upd := e.setPath(av.e[i], path[1:], nv)
		r.e[i] = e.mergeVal(e.b.Eq(p.idx, e.b.BV(64, uint64(i))), upd, av.e[i])
	}
	return r
}

// ---------- loads and stores through (possibly Union) pointers ----------

// ptrAlts flattens a pointer value into guarded plain pointers.
func (e *Engine) ptrAlts(v Val) ([]Alt, bool) {
	switch x := v.(type) {
	case Ptr:
		return []Alt{{e.b.True(), x}}, true
	case Union:
		for _, a := range x.alts {
			if _, ok := a.v.(Ptr); !ok {
				return nil, false
			}
		}
		return x.alts, true
	}
	return nil, false
}

// nilGuard records the obligation that pointer v is not nil.
func (e *Engine) nilGuard(st *State, alts []Alt, what string, pos token.Pos) {
	bad := e.b.False()
	for _, a := range alts {
		if a.v.(Ptr).obj == 0 {
			bad = e.b.Or(bad, a.g)
		}
	}
	e.guard(st, e.b.Not(bad), "nil pointer dereference ("+what+")", pos)
}

func (e *Engine) load(st *State, pv Val, pos token.Pos) Val {
	if p, ok := pv.(Poison); ok {
		return p
	}
	alts, ok := e.ptrAlts(pv)
	if !ok {
		return Poison{fmt.Sprintf("load through %T", pv)}
	}
	e.nilGuard(st, alts, "load", pos)
	if len(e.unwrittenGlobals) > 0 {
		for _, a := range alts {
			p := a.v.(Ptr)
			if why, bad := e.unwrittenGlobals[p.obj]; bad {
				if _, written := st.heap[p.obj]; !written {
					return Poison{why}
				}
			}
		}
	}
	var r Val
	for i := len(alts) - 1; i >= 0; i-- {
		p := alts[i].v.(Ptr)
		if p.obj == 0 {
			continue
		}
		v := e.getPath(e.objVal(st, p.obj), p.path)
		if r == nil {
			r = v
		} else {
			r = e.mergeVal(alts[i].g, v, r)
		}
	}
	if r == nil {
		return Poison{"load through nil"}
	}
	return r
}

func (e *Engine) store(st *State, pv Val, v Val, pos token.Pos) {
	if _, ok := pv.(Poison); ok {
		e.poisonPath(st, "store through poisoned pointer")
		return
	}
	alts, ok := e.ptrAlts(pv)
	if !ok {
		e.poisonPath(st, fmt.Sprintf("store through %T", pv))
		return
	}
	e.nilGuard(st, alts, "store", pos)
	for _, a := range alts {
		p := a.v.(Ptr)
		if p.obj == 0 {
			continue
		}
		old := e.objVal(st, p.obj)
		nv := v
		if !a.g.IsTrue() {
			nv = e.mergeVal(a.g, v, e.getPath(old, p.path))
		}
		e.setObj(st, p.obj, e.setPath(old, p.path, nv))
	}
}

// ---------- slices ----------

// maxLen is the concrete upper bound of a slice's length given its backing object.
func (e *Engine) objLen(s SliceV) int {
	if s.obj == 0 {
		return 0
	}
	return s.n
}

func (e *Engine) maxLen(s SliceV) int {
	n := e.objLen(s)
	if s.off.IsConst() {
		if int(s.off.val) > n {
			return 0
		}
		n -= int(s.off.val)
	}
	if s.len.IsConst() && int(s.len.val) < n {
		n = int(s.len.val)
	}
	if _, h, ok := e.termRange(s.len, 0); ok && h < uint64(n) {
		n = int(h)
	}
	return n
}

// elemPtr gives the pointer to element i (64-bit term) of slice s.
func (e *Engine) elemPtr(s SliceV, i *Term) Ptr {
	path := make([]PathEl, 0, len(s.base)+1)
	path = append(path, s.base...)
	return Ptr{obj: s.obj, path: append(path, PathEl{field: -1, idx: e.b.Add(s.off, i)})}
}

// elemAt reads element i of s in the current state (no bounds guard).
func (e *Engine) elemAt(s SliceV, i *Term) Val {
	if s.obj == 0 {
		return Poison{"elemAt on nil slice"}
	}
	return e.getPath(e.objVal(e.cur, s.obj), e.elemPtr(s, i).path)
}

// newArray allocates an array object and returns a slice over all of it.
func (e *Engine) newArray(st *State, elems []Val, str bool) SliceV {
	id := e.alloc(st, ArrayV{e: elems})
	n := e.b.BV(64, uint64(len(elems)))
	return SliceV{obj: id, off: e.b.BV(64, 0), len: n, cap: n, str: str, n: len(elems)}
}

// constString returns a string value for a Go literal (shared, immutable object).
func (e *Engine) constString(s string) SliceV {
	if s == "" {
		return e.nilSlice(true)
	}
	id, ok := e.strObjs[s]
	if !ok {
		elems := make([]Val, len(s))
		for i := 0; i < len(s); i++ {
			elems[i] = Scalar{e.b.BV(8, uint64(s[i]))}
		}
		e.nobj++
		id = e.nobj
		e.nstamp++
		e.initState.heap[id] = cell{ArrayV{e: elems}, e.nstamp}
		e.strObjs[s] = id
	}
	n := e.b.BV(64, uint64(len(s)))
	return SliceV{obj: id, off: e.b.BV(64, 0), len: n, cap: n, str: true, n: len(s)}
}

// concreteString returns the Go string if the value is fully concrete.
func (e *Engine) concreteString(st *State, s SliceV) (string, bool) {
	if !s.len.IsConst() || !s.off.IsConst() {
		return "", false
	}
	if s.len.val == 0 {
		return "", true
	}
	av, ok := e.getPath(e.objVal(st, s.obj), s.base).(ArrayV)
	if !ok {
		return "", false
	}
	buf := make([]byte, s.len.val)
	for i := range buf {
		sc, ok := av.e[int(s.off.val)+i].(Scalar)
		if !ok || !sc.t.IsConst() {
			return "", false
		}
		buf[i] = byte(sc.t.val)
	}
	return string(buf), true
}
