#!/usr/bin/env python3
# Emits the as-built per-property entries of DESIGN.md Part A.4 from props/*/spec.json, known_findings.json and seeded/*/meta.json.
import json, os, glob
root = os.path.dirname(os.path.abspath(__file__))
props = [json.loads(l) for l in open(os.path.join(root, 'properties.jsonl'))]
kf = json.load(open(os.path.join(root, 'known_findings.json')))
out = []
for p in props:
    pid = p['id']
    sp = os.path.join(root, 'props', pid, 'spec.json')
    if not os.path.exists(sp):
        continue
    s = json.load(open(sp))
    out.append('#### %s — %s\n' % (pid, p['title']))
    out.append('Package `%s`; harness `%s`%s.\n' % (s['pkg'], '`, `'.join(s['files']), ('; contract model(s): ' + ', '.join(s['models'])) if s.get('models') else ''))
    out.append('Units (functions encoded are listed per run in `evidence/%s.json`):\n' % pid)
    for u in s['units']:
        tier = 'thorough only' if u.get('tier') == 'thorough' else 'quick+thorough'
        extra = []
        if u.get('cases'):
            extra.append('case split ' + ', '.join('%s∈%s' % (k, v) for k, v in u['cases'].items()))
        if u.get('thorough', {}).get('cases'):
            extra.append('thorough: ' + ', '.join('%s∈%s' % (k, v) for k, v in u['thorough']['cases'].items()))
        if u.get('unwind'):
            extra.append('unwind ' + json.dumps(u['unwind']))
        if u.get('stubs'):
            extra.append('stubs: ' + '; '.join('%s→%s' % (k.split('/')[-1], v) for k, v in u['stubs'].items()))
        if u.get('no_native'):
            extra.append('no native replay')
        if u.get('map_order'):
            extra.append('map_order')
        if u.get('clock_step_ns'):
            extra.append('clock step %d ns' % u['clock_step_ns'])
        out.append('- `%s` (%s, `%s`): %s%s\n' % (u['name'], tier, u['func'], u.get('what', ''), (' [' + '; '.join(extra) + ']') if extra else ''))
    out.append('\nBounds: ' + ' '.join(s.get('bounds', [])) + '\n')
    if s.get('assumptions'):
        out.append('\nAssumptions / stubs that are part of the claim: ' + ' | '.join(s['assumptions']) + '\n')
    out.append('\nOutside the claim: ' + ' | '.join(s.get('outside_claim', []) or ['-']) + '\n')
    fs = [k for k in kf if k['property'] == pid]
    for k in fs:
        if k['kind'] == 'fixed':
            out.append('\nFixed defect `%s` (repo commit %s): %s\n' % (k['id'], k.get('commit', '?'), k['what']))
        else:
            out.append('\nOPEN known finding `%s`: %s\n' % (k['id'], k['what']))
    mp = os.path.join(root, 'seeded', pid, 'meta.json')
    if os.path.exists(mp):
        m = json.load(open(mp))
        out.append('\nSeeded change `seeded/%s/patch.diff` (needs: %s). Detection: %s\n' % (pid, m.get('needs', '?'), m.get('detected_by', '?')))
    out.append('\n')
open(os.path.join(root, 'build', 'asbuilt_props.md'), 'w').write(''.join(out))
print(len(out))
