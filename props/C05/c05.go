package handshake

import (
	"errors"

	"github.com/flynn/noise"
	"github.com/slackhq/nebula/cert"
	"google.golang.org/protobuf/encoding/protowire"
)

// C05 (binding half) — a handshake reports a peer certificate only if the trust check accepted it and it carries
// exactly the static key the peer proved in the Noise exchange.
//
// The real Machine.processPayload / validateCert / requireComplete on a payload message with symbolic contents. The
// Noise state's PeerStatic() and cert.Recombine are replaced: the peer's proven static key is 4 symbolic bytes, the
// recombined certificate carries 4 symbolic key bytes of its own (equal or not), and the trust check's verdict is free.

var c05Static []byte
var c05Cert *vCert
var c05RecombineFails bool

// c05FieldValue replaces protowire.consumeFieldValueD (see C08): identical for the four proto3 wire types, an error for groups.
func c05FieldValue(num protowire.Number, typ protowire.Type, b []byte, depth int) (n int) {
	switch typ {
	case protowire.VarintType:
		_, n = protowire.ConsumeVarint(b)
		return n
	case protowire.Fixed32Type:
		_, n = protowire.ConsumeFixed32(b)
		return n
	case protowire.Fixed64Type:
		_, n = protowire.ConsumeFixed64(b)
		return n
	case protowire.BytesType:
		_, n = protowire.ConsumeBytes(b)
		return n
	case protowire.StartGroupType:
		return -1
	case protowire.EndGroupType:
		return -3
	default:
		return -2
	}
}

func c05Pad(b []byte, v uint64, n int) []byte {
	for i := 0; i < n-1; i++ {
		b = append(b, byte(v>>(7*uint(i)))|0x80)
	}
	return append(b, byte(v>>(7*uint(n-1)))&0x7f)
}

func c05PeerStatic(hs *noise.HandshakeState) []byte { return c05Static }

func c05Recombine(v cert.Version, raw, publicKey []byte, curve cert.Curve) (cert.Certificate, error) {
	if c05RecombineFails {
		return nil, errors.New("recombine failed")
	}
	return c05Cert, nil
}

func VerifC05Payload() {
	c05Static = verifBytes("peer_static", 4)
	c05Cert = &vCert{name: "peer", ver: cert.Version2, pub: verifBytes("cert_public_key", 4)}
	c05RecombineFails = verifBool("recombine_fails")
	trusted := verifBool("trust_check_accepts")
	verified := &cert.CachedCertificate{Certificate: c05Cert}
	mine := &Credential{Cert: &vCert{name: "me", ver: cert.Version2}}
	m := &Machine{hs: &noise.HandshakeState{}, result: &Result{Initiator: verifBool("initiator")}, myVersion: cert.Version2,
		getCred: func(v cert.Version) *Credential {
			if v == cert.Version2 {
				return mine
			}
			return nil
		},
		verifier: func(c cert.Certificate) (*cert.CachedCertificate, error) {
			if !trusted {
				return nil, errors.New("untrusted")
			}
			return verified, nil
		}}
	p := Payload{InitiatorIndex: verifU32("initiator_index"), ResponderIndex: verifU32("responder_index"), Time: verifU64("time"), CertVersion: 2}
	if verifCase("carries_cert") == 1 {
		p.Cert = []byte{1, 2, 3}
	}
	flags := msgFlags{expectsPayload: verifBool("expects_payload"), expectsCert: verifBool("expects_cert")}
	empty := verifCase("empty_message") == 1
	var msg []byte
	if !empty {
		// hand-built wire bytes with fixed-width (zero-padded) varints: lengths stay concrete, values symbolic
		var d []byte
		if len(p.Cert) > 0 {
			d = append(d, 0x0a, 3, 1, 2, 3)
		}
		d = c05Pad(append(d, 0x10), uint64(p.InitiatorIndex), 5)
		d = c05Pad(append(d, 0x18), uint64(p.ResponderIndex), 5)
		d = c05Pad(append(d, 0x28), p.Time, 10)
		d = append(d, 0x40, 2)
		msg = append([]byte{0x0a, byte(len(d))}, d...)
	}
	err := m.processPayload(msg, flags)

	keyMatches := c05Cert.pub[0] == c05Static[0] && c05Cert.pub[1] == c05Static[1] && c05Cert.pub[2] == c05Static[2] && c05Cert.pub[3] == c05Static[3]
	if m.result.RemoteCert != nil {
		verifAssert(err == nil && m.remoteCertSet, "a reported peer certificate means the message was accepted")
		verifAssert(m.result.RemoteCert == verified && trusted, "the reported certificate is the one the trust check accepted")
		verifAssert(keyMatches && !c05RecombineFails, "the reported certificate carries exactly the static key the peer proved")
		verifAssert(flags.expectsCert && len(p.Cert) > 0 && !empty, "a certificate is taken only from a message that is meant to carry one")
	}
	if err != nil && !(len(msg) == 0 && !flags.expectsPayload && !flags.expectsCert) {
		verifAssert(m.Failed(), "a content error is fatal for the handshake")
	}
	if err == nil && flags.expectsCert {
		verifAssert(m.result.RemoteCert != nil, "an accepted certificate-bearing message sets the peer certificate")
	}
	if err == nil && flags.expectsPayload {
		want := p.InitiatorIndex
		if m.result.Initiator {
			want = p.ResponderIndex
		}
		verifAssert(m.payloadSet && m.result.RemoteIndex == want && want != 0 && m.result.HandshakeTime == p.Time, "the peer's index (never zero) and time are taken from its own field")
	}
	// completion needs both
	cerr := m.requireComplete()
	verifAssert((cerr == nil) == (m.payloadSet && m.remoteCertSet), "completion requires both the payload and an accepted peer certificate")
	var o uint64
	if err == nil {
		o = 1
	}
	verifObserve("accepted", o)
}
