package nebula

import (
	"log/slog"
	"net/netip"
	"time"

	"github.com/gaissmai/bart"
	"github.com/slackhq/nebula/cert"
	"github.com/slackhq/nebula/firewall"
)

// C19 — tracked flows are revalidated after a rule reload.
//
// One tracked flow stamped with an ARBITRARY old rule-set version and an arbitrary original direction, against a
// firewall with an arbitrary current version whose (symbolic) rule set may or may not still allow the flow's
// original direction. One packet of the flow in an arbitrary direction goes through the real Drop/inConns.

var c19Log = slog.New(slog.DiscardHandler)

func VerifC19Revalidate() {
	myCert := &vCert{name: "me", networks: []netip.Prefix{netip.MustParsePrefix("10.1.0.1/16")}}
	fw := NewFirewall(c19Log, time.Hour, time.Hour, time.Hour, myCert)
	fw.rulesVersion = verifU16("current_version")
	// the current rule set: independently allows / does not allow tcp/80 inbound and outbound
	inAllowed, outAllowed := verifBool("in_rule"), verifBool("out_rule")
	if inAllowed {
		verifAssume(fw.AddRule(true, firewall.ProtoTCP, 80, 80, nil, "any", "", "", "", "") == nil)
	}
	if outAllowed {
		verifAssume(fw.AddRule(false, firewall.ProtoTCP, 80, 80, nil, "any", "", "", "", "") == nil)
	}
	peerAddr := netip.AddrFrom4([4]byte{10, 1, 0, 2})
	peer := &vCert{name: "peer", issuer: "sha-one", networks: []netip.Prefix{netip.PrefixFrom(peerAddr, 16)}}
	myNets := new(bart.Lite)
	myNets.Insert(netip.MustParsePrefix("10.1.0.0/16"))
	h := &HostInfo{vpnAddrs: []netip.Addr{peerAddr}, ConnectionState: &ConnectionState{peerCert: vCached(peer)}}
	h.buildNetworks(myNets, peer)
	pool := cert.NewCAPool()

	// the flow: both ports 80 so that either direction is covered by the same rule shape
	p := firewall.Packet{RemoteAddr: peerAddr, LocalAddr: netip.AddrFrom4([4]byte{10, 1, 0, 1}), RemotePort: 80, LocalPort: 80, Protocol: firewall.ProtoTCP}
	t0 := time.Now()
	origIncoming := verifBool("flow_was_incoming")
	stamp := verifU16("flow_version")
	entry := &conn{incoming: origIncoming, rulesVersion: stamp, Expires: time.Now().Add(time.Hour)}
	fw.Conntrack.Conns[p] = entry

	pktIncoming := verifBool("packet_incoming")
	err := fw.Drop(p, pktIncoming, h, pool, nil)
	verifAssume(time.Now().Sub(t0) < time.Minute) // the flow (1 h timeout) does not expire during the experiment

	stillAllowed := (origIncoming && inAllowed) || (!origIncoming && outAllowed)
	ruleNow := (pktIncoming && inAllowed) || (!pktIncoming && outAllowed)
	cur, tracked := fw.Conntrack.Conns[p]
	if stamp == fw.rulesVersion {
		verifAssert(err == nil && tracked && cur == entry, "same rule-set version: the established flow is honoured as is")
	} else if stillAllowed {
		verifAssert(err == nil && tracked, "older version, original direction still allowed: the flow is kept")
		verifAssert(cur.rulesVersion == fw.rulesVersion, "a revalidated flow is re-stamped with the current version")
	} else {
		// the old flow is forgotten; the packet then stands on its own against the current rules
		verifAssert((err == nil) == ruleNow, "older version, original direction no longer allowed: the flow no longer lets packets through")
		if err != nil {
			verifAssert(!tracked, "the stale flow is forgotten")
		} else {
			verifAssert(tracked && cur != entry && cur.incoming == pktIncoming && cur.rulesVersion == fw.rulesVersion, "a packet allowed by the current rules starts a new flow")
		}
	}
	var o uint64
	if err == nil {
		o = 1
	}
	verifObserve("passed", o)
}
