package nebula

import (
	"errors"
	"log/slog"
	"net/netip"
	"time"

	"github.com/gaissmai/bart"
	"github.com/slackhq/nebula/cert"
	"github.com/slackhq/nebula/config"
	"github.com/slackhq/nebula/firewall"
)

// C19 — tracked flows are revalidated after a rule reload.
//
// One tracked flow stamped with an ARBITRARY old rule-set version and an arbitrary original direction, against a
// firewall with an arbitrary current version whose (symbolic) rule set may or may not still allow the flow's
// original direction. One packet of the flow in an arbitrary direction goes through the real Drop/inConns.

var c19Log = slog.New(slog.DiscardHandler)

func VerifC19Revalidate() {
	myCert := &vCert{name: "me", networks: []netip.Prefix{netip.MustParsePrefix("10.1.0.1/16")}}
	fw := NewFirewall(c19Log, time.Hour, time.Hour, time.Hour, myCert)
	fw.rulesVersion = verifU16("current_version")
	// the current rule set: independently allows / does not allow tcp/80 inbound and outbound
	inAllowed, outAllowed := verifBool("in_rule"), verifBool("out_rule")
	if inAllowed {
		verifAssume(fw.AddRule(true, firewall.ProtoTCP, 80, 80, nil, "any", "", "", "", "") == nil)
	}
	if outAllowed {
		verifAssume(fw.AddRule(false, firewall.ProtoTCP, 80, 80, nil, "any", "", "", "", "") == nil)
	}
	peerAddr := netip.AddrFrom4([4]byte{10, 1, 0, 2})
	peer := &vCert{name: "peer", issuer: "sha-one", networks: []netip.Prefix{netip.PrefixFrom(peerAddr, 16)}}
	myNets := new(bart.Lite)
	myNets.Insert(netip.MustParsePrefix("10.1.0.0/16"))
	h := &HostInfo{vpnAddrs: []netip.Addr{peerAddr}, ConnectionState: &ConnectionState{peerCert: vCached(peer)}}
	h.buildNetworks(myNets, peer)
	pool := cert.NewCAPool()

	// the flow: both ports 80 so that either direction is covered by the same rule shape
	p := firewall.Packet{RemoteAddr: peerAddr, LocalAddr: netip.AddrFrom4([4]byte{10, 1, 0, 1}), RemotePort: 80, LocalPort: 80, Protocol: firewall.ProtoTCP}
	t0 := time.Now()
	origIncoming := verifBool("flow_was_incoming")
	stamp := verifU16("flow_version")
	entry := &conn{incoming: origIncoming, rulesVersion: stamp, Expires: time.Now().Add(time.Hour)}
	fw.Conntrack.Conns[p] = entry

	pktIncoming := verifBool("packet_incoming")
	err := fw.Drop(p, pktIncoming, h, pool, nil)
	verifAssume(time.Now().Sub(t0) < time.Minute) // the flow (1 h timeout) does not expire during the experiment

	stillAllowed := (origIncoming && inAllowed) || (!origIncoming && outAllowed)
	ruleNow := (pktIncoming && inAllowed) || (!pktIncoming && outAllowed)
	cur, tracked := fw.Conntrack.Conns[p]
	if stamp == fw.rulesVersion {
		verifAssert(err == nil && tracked && cur == entry, "same rule-set version: the established flow is honoured as is")
	} else if stillAllowed {
		verifAssert(err == nil && tracked, "older version, original direction still allowed: the flow is kept")
		verifAssert(cur.rulesVersion == fw.rulesVersion, "a revalidated flow is re-stamped with the current version")
	} else {
		// the old flow is forgotten; the packet then stands on its own against the current rules
		verifAssert((err == nil) == ruleNow, "older version, original direction no longer allowed: the flow no longer lets packets through")
		if err != nil {
			verifAssert(!tracked, "the stale flow is forgotten")
		} else {
			verifAssert(tracked && cur != entry && cur.incoming == pktIncoming && cur.rulesVersion == fw.rulesVersion, "a packet allowed by the current rules starts a new flow")
		}
	}
	var o uint64
	if err == nil {
		o = 1
	}
	verifObserve("passed", o)
}

// ---- the reload itself ----

var c19NewFW *Firewall
var c19ConfigChanged bool

func c19NewFirewall(l *slog.Logger, cs *CertState, c *config.C) (*Firewall, error) {
	if c19NewFW == nil {
		return nil, errors.New("bad firewall config")
	}
	return c19NewFW, nil
}
func c19HasChanged(c *config.C, k string) bool { return c19ConfigChanged }
func c19RuleHash(f *Firewall) string           { return f.rules } // stands in for the SHA-256 of the rules text: equal exactly for equal rule sets

// VerifC19Reload: Interface.reloadFirewall with a tracked flow in the old firewall's table, then one packet of the flow.
func VerifC19Reload() {
	myCert := &vCert{name: "me", ver: cert.Version2, networks: []netip.Prefix{netip.MustParsePrefix("10.1.0.1/16")}}
	unsafeChanged := verifBool("cert_unsafe_networks_changed")
	if unsafeChanged {
		myCert.unsafe = []netip.Prefix{netip.MustParsePrefix("192.168.7.0/24")}
	}
	old := NewFirewall(c19Log, time.Hour, time.Hour, time.Hour, &vCert{name: "me", networks: myCert.networks})
	verifAssume(old.AddRule(true, firewall.ProtoTCP, 80, 80, nil, "any", "", "", "", "") == nil)
	old.rules = "in tcp/80" // the rules text (AddRule builds it with fmt.Sprintf, which the executor does not format)
	old.rulesVersion = verifU16("old_version")
	peerAddr := netip.AddrFrom4([4]byte{10, 1, 0, 2})
	peer := &vCert{name: "peer", issuer: "sha-one", networks: []netip.Prefix{netip.PrefixFrom(peerAddr, 16)}}
	myNets := new(bart.Lite)
	myNets.Insert(netip.MustParsePrefix("10.1.0.0/16"))
	h := &HostInfo{vpnAddrs: []netip.Addr{peerAddr}, ConnectionState: &ConnectionState{peerCert: vCached(peer)}}
	h.buildNetworks(myNets, peer)
	pool := cert.NewCAPool()
	p := firewall.Packet{RemoteAddr: peerAddr, LocalAddr: netip.AddrFrom4([4]byte{10, 1, 0, 1}), RemotePort: 4000, LocalPort: 80, Protocol: firewall.ProtoTCP}
	t0 := time.Now()
	verifAssert(old.Drop(p, true, h, pool, nil) == nil, "the flow is established under the old rules")

	// the reloaded configuration
	c19ConfigChanged = verifBool("firewall_config_changed")
	loadFails := verifBool("new_config_invalid")
	stillAllows := verifBool("new_rules_still_allow_the_flow")
	nf := NewFirewall(c19Log, time.Hour, time.Hour, time.Hour, myCert)
	if stillAllows {
		verifAssume(nf.AddRule(true, firewall.ProtoTCP, 80, 80, nil, "any", "", "", "", "") == nil)
		nf.rules = "in tcp/80"
	} else {
		verifAssume(nf.AddRule(true, firewall.ProtoTCP, 443, 443, nil, "any", "", "", "", "") == nil)
		nf.rules = "in tcp/443"
	}
	c19NewFW = nf
	if loadFails {
		c19NewFW = nil
	}
	pk := &PKI{l: c19Log}
	pk.cs.Store(&CertState{v2Cert: myCert, initiatingVersion: cert.Version2})
	f := &Interface{l: c19Log, firewall: old, pki: pk}
	f.reloadFirewall(config.NewC(c19Log))

	rebuilt := (c19ConfigChanged || unsafeChanged) && !loadFails
	if !rebuilt {
		verifAssert(f.firewall == old && old.rulesVersion == f.firewall.rulesVersion, "without a firewall change (or with an invalid new configuration) the running firewall stays")
	} else {
		verifAssert(f.firewall == nf, "a changed configuration installs the new firewall")
		verifAssert(nf.rulesVersion == old.rulesVersion+1, "every rebuild advances the rule-set version, whatever triggered it")
		if nf.rulesVersion != 0 {
			verifAssert(nf.Conntrack == old.Conntrack, "tracked flows are carried over to be revalidated")
		} else {
			verifAssert(nf.Conntrack != old.Conntrack && len(nf.Conntrack.Conns) == 0, "when the version counter wraps the table is reset instead")
		}
	}
	// the flow's next packet (its original direction: inbound)
	err := f.firewall.Drop(p, true, h, pool, nil)
	verifAssume(time.Now().Sub(t0) < time.Minute)
	if rebuilt && !stillAllows {
		verifAssert(err != nil, "a flow whose original direction the current rules no longer allow is forgotten")
		_, tracked := f.firewall.Conntrack.Conns[p]
		verifAssert(!tracked, "a flow whose original direction the current rules no longer allow is forgotten")
	}
	if !rebuilt || stillAllows {
		verifAssert(err == nil, "a reload that leaves the flow allowed never cuts it")
	}
	var o uint64
	if err == nil {
		o = 1
	}
	verifObserve("passes", o)
}
