package udp

import (
	"errors"
	"log/slog"
	"net"
	"net/netip"

	"golang.org/x/sys/unix"
)

// C26 — batched underlay sends survive kernel faults without duplication.
//
// The real WriteBatch/planRun/writeEntryCmsg/writeSockaddr run against a scripted kernel: sendFn is a harness
// closure that answers every call with an arbitrary (sent, errno) pair taken from a symbolic script and records
// the shape of every entry it is shown and which entries it accepted.

const (
	c26N      = 4 // packets
	c26Script = 4 // kernel answers
)

// c26Scratch: mmsghdr entries (and iovecs) per chunk; 2 in the general units, 3 in the concrete-layout family
var c26Scratch = 2

var c26Log = slog.New(slog.DiscardHandler)

func VerifC26WriteBatch() {
	c26Scratch = verifCase("scratch")
	nPk := verifCase("packets")
	w := &batchWriter{fd: -1, l: c26Log}
	var bIsV4 bool
	if verifCase("debug") == 2 {
		w.isV4, w.gsoSupported, w.maxGSOSegments, bIsV4 = true, true, 2, false
	} else {
		w.isV4 = verifBool("sock_v4")
		w.gsoSupported = verifBool("gso")
		w.maxGSOSegments = 2 + verifInt("extra_segs", 0, 1)
		bIsV4 = verifBool("b_is_v4")
	}
	if verifCase("focus") == 1 {
		// the offload-replay family: v4 socket with GSO, 2-segment limit, one of the two destinations unroutable (v6)
		verifAssume(w.isV4 && w.gsoSupported && w.maxGSOSegments == 2 && !bIsV4)
	}
	w.prepareWriteMessages(c26Scratch, true)
	gso0 := w.gsoSupported

	// batch: arbitrary lengths (0..70000), destinations from two addresses of arbitrary families
	dstA := netip.AddrPortFrom(netip.AddrFrom4([4]byte{10, 0, 0, 1}), 4242)
	dstB := netip.AddrPortFrom(netip.AddrFrom16([16]byte{0xfd, 15: 2}), 4243)
	if bIsV4 {
		dstB = netip.AddrPortFrom(netip.AddrFrom4([4]byte{10, 0, 0, 2}), 4242)
	}
	lenN := [c26N]string{"len0", "len1", "len2", "len3"}
	dstN := [c26N]string{"dst0", "dst1", "dst2", "dst3"}
	var bufs [][]byte
	var addrs []netip.AddrPort
	var lens [c26N]int
	var toB [c26N]bool
	var first [c26N]*byte // identity of each (non-empty) packet: the address of its first byte
	for i := 0; i < nPk; i++ {
		if verifCase("debug") == 2 {
			lens[i] = [c26N]int{500, 700, 1200, 1200}[i] // concrete-layout family
		} else {
			lens[i] = verifInt(lenN[i], 0, 70000)
		}
		backing := make([]byte, 70000) // own buffer per packet (contents irrelevant, identity matters)
		bufs = append(bufs, backing[:lens[i]])
		first[i] = &backing[0]
		if verifCase("debug") == 2 {
			toB[i] = i == 0
		} else {
			toB[i] = verifBool(dstN[i])
		}
		if verifCase("focus") == 1 {
			verifAssume(toB[i] == (i == 0)) // first datagram unroutable, the rest to one destination
		}
		if toB[i] {
			addrs = append(addrs, dstB)
		} else {
			addrs = append(addrs, dstA)
		}
	}

	// kernel script
	sentScript := verifWords("sent", c26Script)
	errScript := verifBytes("errno", c26Script)
	if verifCase("debug") == 2 {
		// concrete-layout family: an unroutable datagram, a smaller one, then two equal ones (a GSO run), v4 socket with
		// GSO and a 2-segment limit; the KERNEL's answers stay arbitrary
		verifAssume(w.isV4 && gso0 && w.maxGSOSegments == 2 && dstB.Addr().Is6())
	}
	if verifCase("debug") == 1 {
		verifAssume(w.isV4 && gso0 && w.maxGSOSegments == 2 && dstB.Addr().Is6())
		verifAssume(lens[0] == 500 && toB[0] && lens[1] == 700 && !toB[1] && lens[2] == 1200 && !toB[2] && lens[3] == 1200 && !toB[3])
		verifAssume(sentScript[0] == 1 && sentScript[1] == 0 && sentScript[2] == 2 && sentScript[3] == 1)
		verifAssume(errScript[0] == 0 && errScript[1] == 1 && errScript[2] == 0 && errScript[3] == 0)
	}
	calls := 0
	accepted := 0 // packets in entries the kernel accepted
	var handed [c26N]int // how often each packet was in an accepted entry
	note := func(e int) {
		h := &w.msgs[e].Hdr
		for q := 0; q < c26Scratch; q++ {
			if h.Iov == &w.iovs[q] {
				for k := 0; k < int(h.Iovlen) && q+k < c26Scratch; k++ {
					for j := 0; j < c26N; j++ {
						if w.iovs[q+k].Base != nil && w.iovs[q+k].Base == first[j] {
							handed[j]++
						}
					}
				}
			}
		}
	}
	okRuns := true
	progress := true
	w.sendFn = func(start, n int) (int, error) {
		if calls >= c26Script {
			// script exhausted: from here on the kernel accepts everything
			for e := start; e < start+n; e++ {
				accepted += int(w.msgs[e].Hdr.Iovlen)
				note(e)
			}
			return n, nil
		}
		sent := int(sentScript[calls] % uint64(n+1)) // 0..n
		kind := errScript[calls] % 3
		calls++
		// every entry shown to the kernel must be a well-formed run
		for e := start; e < start+n; e++ {
			h := &w.msgs[e].Hdr
			k := int(h.Iovlen)
			if k < 1 || k > w.maxGSOSegments || (k > 1 && !gso0) {
				okRuns = false
			}
			if k > 1 {
				if h.Controllen == 0 || h.Control == nil {
					okRuns = false
				}
			} else if h.Controllen != 0 {
				okRuns = false
			}
		}
		for e := start; e < start+sent; e++ {
			accepted += int(w.msgs[e].Hdr.Iovlen)
			note(e)
		}
		if sent > 0 {
			return sent, nil
		}
		switch kind {
		case 0:
			progress = false
			return 0, nil // kernel made no progress and reported no error
		case 1:
			return 0, &net.OpError{Op: "sendmmsg", Err: unix.EIO}
		default:
			return 0, &net.OpError{Op: "sendmmsg", Err: unix.ENOBUFS}
		}
	}

	written, err := w.WriteBatch(bufs, addrs)
	verifAssert(okRuns, "every entry handed to the kernel is a run within the segment limit, with a segment cmsg exactly when it has several packets")
	verifAssert(written == accepted, "the reported count equals the datagrams the kernel accepted")
	verifAssert(written <= nPk, "no datagram is counted (handed over successfully) more than once")
	for j := 0; j < c26N; j++ {
		verifAssert(handed[j] <= 1, "every datagram is handed to the kernel successfully at most once")
	}
	if progress {
		verifAssert(err == nil, "kernel faults are not reported as call failures")
	} else {
		verifAssert(err != nil, "a zero-progress, zero-error kernel answer ends the call with an error")
	}
	if errors.Is(err, unix.EIO) {
		verifAssert(false, "EIO is absorbed (GSO disabled, run replayed), never returned")
	}
	verifObserve("written", uint64(written))
	verifObserve("accepted", uint64(accepted))
	verifObserve("calls", uint64(calls))
	verifObserve("handed1", uint64(handed[1]))
	var g uint64
	if w.gsoSupported {
		g = 1
	}
	verifObserve("gso_after", g)
}

// VerifC26PlanRun: one planRun decision from an arbitrary position: the run it plans is valid and maximal-prefix.
func VerifC26PlanRun() {
	w := &batchWriter{fd: -1, isV4: true, l: c26Log}
	w.gsoSupported = verifBool("gso")
	w.maxGSOSegments = verifInt("maxsegs", 1, 4)
	dstA := netip.AddrPortFrom(netip.AddrFrom4([4]byte{10, 0, 0, 1}), 4242)
	dstB := netip.AddrPortFrom(netip.AddrFrom4([4]byte{10, 0, 0, 2}), 4242)
	lenN := [c26N]string{"len0", "len1", "len2", "len3"}
	dstN := [c26N]string{"dst0", "dst1", "dst2", "dst3"}
	backing := make([]byte, 70000)
	var bufs [][]byte
	var addrs []netip.AddrPort
	var lens [c26N]int
	var toB [c26N]bool
	for i := 0; i < c26N; i++ {
		lens[i] = verifInt(lenN[i], 0, 70000)
		bufs = append(bufs, backing[:lens[i]])
		toB[i] = verifBool(dstN[i])
		if toB[i] {
			addrs = append(addrs, dstB)
		} else {
			addrs = append(addrs, dstA)
		}
	}
	budget := verifInt("budget", 0, 5)
	start := verifInt("start", 0, c26N)
	run, seg := w.planRun(bufs, addrs, start, budget)
	if start >= c26N || budget < 1 {
		verifAssert(run == 0, "nothing to plan")
		return
	}
	verifAssert(run >= 1 && start+run <= c26N, "a run is non-empty and inside the batch")
	verifAssert(seg == lens[start], "segment size is the first packet's length")
	verifAssert(run <= budget, "run within the iovec budget")
	if run > 1 {
		verifAssert(w.gsoSupported && run <= w.maxGSOSegments, "multi-packet runs need GSO and respect the segment limit")
		total := 0
		for k := 0; k < c26N; k++ {
			if k >= start && k < start+run {
				total += lens[k]
				verifAssert(toB[k] == toB[start], "one destination per run")
				verifAssert(lens[k] > 0 && lens[k] <= seg, "no empty member, no member larger than the segment size")
				if k < start+run-1 {
					verifAssert(lens[k] == seg, "only the last member may be shorter")
				}
			}
		}
		verifAssert(total <= maxGSOBytes, "run within the byte limit")
	}
	verifObserve("run", uint64(run))
}
