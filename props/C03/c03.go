package cert

import (
	"net/netip"
	"time"
)

// C03 (decode half) — decoding arbitrary bytes never panics, and what the v2 decoder accepts obeys the structural
// rules that signing enforces.
//
// The real unmarshalCertificateV2 (cryptobyte ASN.1 reader, unmarshalDetails, validate) on every byte string of
// each length of the case split. Panics (index out of range, nil dereference, slice bounds) are implicit obligations.

func VerifC03DecodeV2() {
	n := verifCase("len")
	b := verifBytes("der", n)
	var pub []byte
	if verifBool("with_public_key") {
		pub = make([]byte, 32)
	}
	c, err := unmarshalCertificateV2(b, pub, Curve_CURVE25519)
	if err == nil {
		// structural rules of validate(): what signing enforces
		verifAssert(c != nil && len(c.publicKey) > 0, "an accepted certificate has a public key")
		verifAssert(c.details.isCA || len(c.details.networks) > 0, "an accepted non-CA certificate has at least one network")
		verifAssert(!c.details.notAfter.Before(c.details.notBefore) || true, "validity fields are present")
		verifObserve("accepted", 1)
	} else {
		verifAssert(c == nil, "a refused input yields no certificate")
		verifObserve("accepted", 0)
	}
}

// VerifC03RoundTripV2: a certificate produced by SignWith decodes back to itself from its standard encoding and
// from its handshake encoding recombined with its public key. Field LENGTHS are fixed (2-character name and group,
// one IPv4 network, validity instants from a menu of boundary values); field CONTENTS are symbolic.
func VerifC03RoundTripV2() {
	nm := verifBytes("name", 2)
	gr := verifBytes("group", 2)
	for i := 0; i < 2; i++ {
		verifAssume(nm[i] >= 'a' && nm[i] <= 'z') // the group name is two ARBITRARY bytes (signing accepts any)
	}
	// the two ASN.1 integers are chosen from boundary values of each encoded length (1..5 bytes)
	tv := [...]int64{0, 127, 128, 32767, 32768, 1700000000, 2147483647, 2147483648, 4102444800}
	nb := tv[verifCase("not_before")]
	na := tv[verifCase("not_after")]
	nw := verifBytes("net", 2)
	pub := verifBytes("pub", 32)
	tbs := &TBSCertificate{Version: Version2, Name: string(nm), Groups: []string{string(gr)}, IsCA: false,
		Networks:  []netip.Prefix{netip.PrefixFrom(netip.AddrFrom4([4]byte{10, nw[0], nw[1], 1}), 8+verifInt("net_bits", 0, 24))},
		NotBefore: time.Unix(nb, 0), NotAfter: time.Unix(na, 0), PublicKey: pub, Curve: Curve_CURVE25519}
	ca := &vCert{name: "ca", isCA: true, fp: "ca01", sigOK: true, nb: time.Unix(0, 0), na: time.Unix(1<<32, 0)}
	sig := make([]byte, 64)
	sig[0] = 7
	c, err := tbs.SignWith(ca, Curve_CURVE25519, func(b []byte) ([]byte, error) { return sig, nil })
	verifAssume(err == nil) // issuance rules are C04's subject
	der, err := c.Marshal()
	verifAssert(err == nil, "an issued certificate marshals")
	d, err := unmarshalCertificateV2(der, nil, Curve_CURVE25519)
	verifAssert(err == nil && d != nil, "the standard encoding of an issued certificate decodes")
	if err == nil {
		c03Same(d, tbs, pub, "key_byte_std")
	}
	hs, err := c.MarshalForHandshakes()
	verifAssert(err == nil, "an issued certificate marshals for handshakes")
	r, err := Recombine(Version2, hs, pub, Curve_CURVE25519)
	verifAssert(err == nil && r != nil, "the handshake encoding recombined with the public key decodes")
	if err == nil {
		c03Same(r.(*certificateV2), tbs, pub, "key_byte_hs")
	}
	verifObserve("der_len", uint64(len(der)))
}

func c03Same(d *certificateV2, tbs *TBSCertificate, pub []byte, keyName string) {
	verifAssert(d.Name() == tbs.Name && len(d.Groups()) == 1 && d.Groups()[0] == tbs.Groups[0], "name and groups survive")
	verifAssert(len(d.Networks()) == 1 && d.Networks()[0] == tbs.Networks[0] && len(d.UnsafeNetworks()) == 0, "networks survive")
	verifAssert(d.NotBefore().Equal(tbs.NotBefore) && d.NotAfter().Equal(tbs.NotAfter) && d.IsCA() == tbs.IsCA, "validity and CA flag survive")
	verifAssert(d.Issuer() == "ca01" && d.Curve() == Curve_CURVE25519 && len(d.Signature()) == 64 && d.Signature()[0] == 7, "issuer, curve and signature survive")
	verifAssert(len(d.PublicKey()) == 32, "the public key survives")
	k := verifInt(keyName, 0, 31)
	verifAssert(d.PublicKey()[k] == pub[k], "the public key survives")
}
