package nebula

import (
	"log/slog"
	"net/netip"

	"github.com/gaissmai/bart"
	"github.com/slackhq/nebula/cert"
	"github.com/slackhq/nebula/header"
)

// C35 — lighthouse information is accepted only from authorized senders.
//
// The real LightHouseHandler.HandleRequest on wire bytes built by hand (fixed-width, zero-padded varints keep every
// offset concrete while the values stay symbolic), for a node that is or is not a lighthouse, from a lighthouse, an
// ordinary peer, a multi-address peer or another peer, claiming any address of a small menu.

var c35Log = slog.New(slog.DiscardHandler)

var (
	c35LH = netip.AddrFrom4([4]byte{10, 128, 0, 1})
	c35A1 = netip.AddrFrom4([4]byte{10, 128, 0, 10})
	c35A2 = netip.AddrFrom4([4]byte{10, 128, 0, 11})
	c35B  = netip.AddrFrom4([4]byte{10, 128, 0, 20})
	c35C  = netip.AddrFrom4([4]byte{10, 128, 0, 30}) // nobody we know
)

// c35Writer records what the handler sends.
type c35Writer struct {
	to []netip.Addr
}

func (w *c35Writer) SendVia(via *HostInfo, relay *Relay, ad, nb, out []byte, nocopy bool, q int) {}
func (w *c35Writer) SendMessageToVpnAddr(t header.MessageType, st header.MessageSubType, vpnAddr netip.Addr, p, nb, out []byte) {
	w.to = append(w.to, vpnAddr)
}
func (w *c35Writer) SendMessageToHostInfo(t header.MessageType, st header.MessageSubType, hostinfo *HostInfo, p, nb, out []byte) {
}
func (w *c35Writer) Handshake(vpnAddr netip.Addr)             {}
func (w *c35Writer) GetHostInfo(vpnAddr netip.Addr) *HostInfo { return nil }
func (w *c35Writer) GetCertState() *CertState                 { return &CertState{initiatingVersion: cert.Version1} }

func c35Pad5(b []byte, v uint32) []byte {
	return append(b, byte(v)|0x80, byte(v>>7)|0x80, byte(v>>14)|0x80, byte(v>>21)|0x80, byte(v>>28))
}

func c35Pad10(b []byte, v uint64) []byte {
	for i := 0; i < 9; i++ {
		b = append(b, byte(v>>(7*uint(i)))|0x80)
	}
	return append(b, byte(v>>63))
}

func c35U32(a netip.Addr) uint32 {
	b := a.As4()
	return uint32(b[0])<<24 | uint32(b[1])<<16 | uint32(b[2])<<8 | uint32(b[3])
}

func c35AddrMsg(b []byte, tag byte, a uint32) []byte {
	b = append(b, tag, 22, 0x08)
	b = c35Pad10(b, 0)
	b = append(b, 0x10)
	return c35Pad10(b, 0x0000ffff00000000|uint64(a))
}

func VerifC35Request() {
	amLighthouse := verifBool("am_lighthouse")
	w := &c35Writer{}
	nets := new(bart.Lite)
	nets.Insert(netip.MustParsePrefix("10.128.0.0/24"))
	lh := &LightHouse{l: c35Log, amLighthouse: amLighthouse, myVpnNetworksTable: nets, punchy: &Punchy{}, addrMap: map[netip.Addr]*RemoteList{}, ifce: w}
	lhs := []netip.Addr{c35LH}
	lh.lighthouses.Store(&lhs)
	lh.remoteAllowList.Store(&RemoteAllowList{}) // no rules: everything allowed
	// what the node already knows about B (reported by B itself when we are a lighthouse, by the lighthouse otherwise)
	known := &V4AddrPort{Addr: 0x05050505, Port: 5555}
	rb := NewRemoteList([]netip.Addr{c35B}, lh.shouldAdd)
	rb.unlockedSetV4(c35B, c35B, []*V4AddrPort{known}, lh.unlockedShouldAddV4)
	lh.addrMap[c35B] = rb

	// sender
	var from []netip.Addr
	sender := verifCase("sender")
	switch sender {
	case 0:
		from = []netip.Addr{c35LH}
	case 1:
		from = []netip.Addr{c35A1}
	case 2:
		from = []netip.Addr{c35A1, c35A2}
	default:
		from = []netip.Addr{c35B}
	}
	fromLH := sender == 0
	// claimed overlay address: any of the menu (a symbolic index keeps the wire bytes symbolic)
	menu := [...]uint32{c35U32(c35A1), c35U32(c35A2), c35U32(c35B), c35U32(c35LH), c35U32(c35C)}
	ci := verifInt("claimed", 0, 4)
	claimed := menu[ci]
	claimedAddr := [...]netip.Addr{c35A1, c35A2, c35B, c35LH, c35C}[ci]
	typ := uint8(verifInt("type", 0, 11))
	relay := menu[verifInt("relay", 0, 4)]

	// the message
	form := verifCase("form") // 0: v1 fields, 1: v2 fields, 2: no claimed address, 3: no details at all
	var d []byte
	switch form {
	case 0:
		d = append(d, 0x08)
		d = c35Pad5(d, claimed)
	case 1:
		d = c35AddrMsg(d, 0x32, claimed)
	}
	d = append(d, 0x12, 12, 0x08)
	d = c35Pad5(d, 0x01020304)
	d = append(d, 0x10)
	d = c35Pad5(d, 4242)
	switch form {
	case 0:
		d = append(d, 0x2a, 5)
		d = c35Pad5(d, relay)
	case 1:
		d = c35AddrMsg(d, 0x3a, relay)
	}
	p := []byte{0x08, typ}
	if form != 3 {
		p = append(p, 0x12, byte(len(d)))
		p = append(p, d...)
	}
	hasClaim := form == 0 || form == 1

	lhh := lh.NewRequestHandler()
	lhh.HandleRequest(netip.AddrPortFrom(netip.AddrFrom4([4]byte{9, 9, 9, 9}), 4242), from, p, w)

	// ---- what changed ----
	inFrom := func(a netip.Addr) bool {
		for _, f := range from {
			if f == a {
				return true
			}
		}
		return false
	}
	all := [...]netip.Addr{c35A1, c35A2, c35B, c35LH, c35C}
	changed := false
	for _, a := range all {
		rl, ok := lh.addrMap[a]
		if a == c35B {
			verifAssert(ok && rl == rb, "an existing entry is never replaced")
			c := rb.cache[c35B]
			same := len(rb.cache) == 1 && c != nil && c.relay == nil && c.v4 != nil && len(c.v4.reported) == 1 && c.v4.reported[0] == known
			if !same {
				changed = true
				if amLighthouse {
					verifAssert(inFrom(c35B), "a lighthouse changes what it knows about an address only on a message from a tunnel authenticated as that address")
				} else {
					verifAssert(fromLH, "a non-lighthouse changes what it knows only on a message from one of its lighthouses")
				}
			}
			continue
		}
		if ok {
			changed = true
			// a new entry: who may cause it, and whose name it is filed under
			if typ == uint8(NebulaMeta_HostUpdateNotification) {
				verifAssert(amLighthouse && inFrom(a), "a lighthouse records information for an address only from a tunnel authenticated as that address")
				verifAssert(len(rl.cache) == 1 && rl.cache[from[0]] != nil, "the information is filed under the sender's own address")
			} else {
				verifAssert(typ == uint8(NebulaMeta_HostQueryReply) && fromLH && hasClaim && a == claimedAddr, "query answers are accepted only from a configured lighthouse")
				verifAssert(len(rl.cache) == 1 && rl.cache[c35LH] != nil, "an answer is filed under the lighthouse that gave it")
			}
		}
	}
	switch typ {
	case uint8(NebulaMeta_HostQuery):
		verifAssert(!changed, "a query changes nothing")
		if len(w.to) > 0 {
			verifAssert(amLighthouse, "only a lighthouse answers queries")
			verifAssert(w.to[0] == from[0], "the answer goes to the tunnel that asked")
		}
		if amLighthouse && hasClaim && claimedAddr == c35B {
			verifAssert(len(w.to) >= 1, "a lighthouse answers a query about an address it knows")
		}
	case uint8(NebulaMeta_HostQueryReply):
		verifAssert(len(w.to) == 0, "an answer is never answered")
		if !fromLH {
			verifAssert(!changed, "query answers from anyone but a configured lighthouse are ignored")
		}
		if fromLH && hasClaim && claimedAddr != c35B {
			verifAssert(changed, "an answer from a lighthouse is recorded")
		}
	case uint8(NebulaMeta_HostUpdateNotification):
		if !amLighthouse {
			verifAssert(!changed && len(w.to) == 0, "a non-lighthouse ignores host updates")
		}
		if hasClaim && !inFrom(claimedAddr) {
			verifAssert(!changed && len(w.to) == 0, "an update claiming an address the tunnel is not authenticated for is ignored")
		}
		if amLighthouse && (!hasClaim || inFrom(claimedAddr)) && form != 3 {
			verifAssert(changed && len(w.to) == 1 && w.to[0] == from[0], "a lighthouse records a host's own update and acknowledges it")
		}
	default:
		verifAssert(!changed && len(w.to) == 0, "every other message type changes nothing and sends nothing")
	}
	var o uint64
	if changed {
		o = 1
	}
	verifObserve("changed", o)
	verifObserve("sent", uint64(len(w.to)))
}

// c35Message builds the wire bytes of one lighthouse message (see VerifC35Request for the layout).
func c35Message(typ uint8, form int, claimed, relay uint32) []byte {
	var d []byte
	switch form {
	case 0:
		d = append(d, 0x08)
		d = c35Pad5(d, claimed)
	case 1:
		d = c35AddrMsg(d, 0x32, claimed)
	}
	d = append(d, 0x12, 12, 0x08)
	d = c35Pad5(d, 0x01020304)
	d = append(d, 0x10)
	d = c35Pad5(d, 4242)
	switch form {
	case 0:
		d = append(d, 0x2a, 5)
		d = c35Pad5(d, relay)
	case 1:
		d = c35AddrMsg(d, 0x3a, relay)
	}
	p := []byte{0x08, typ}
	p = append(p, 0x12, byte(len(d)))
	return append(p, d...)
}

// VerifC35Reuse: one handler serves two messages in a row (as the receive loop does). The first is a v1-encoded
// message of a type that has no effect (HostMovedNotification) claiming an arbitrary address, from anyone; the
// second, in v2 encoding (with or without a claimed address), must be judged exactly as on a fresh handler.
func VerifC35Reuse() {
	amLighthouse := verifBool("am_lighthouse")
	menu := [...]uint32{c35U32(c35A1), c35U32(c35A2), c35U32(c35B), c35U32(c35LH), c35U32(c35C)}
	addrs := [...]netip.Addr{c35A1, c35A2, c35B, c35LH, c35C}
	first := c35Message(uint8(NebulaMeta_HostMovedNotification), 0, menu[verifInt("first_claimed", 0, 4)], menu[0])
	form2 := 1 + verifCase("second_has_no_claim") // 1: v2 with claimed address, 2: no claimed address
	ci := verifInt("second_claimed", 0, 4)
	typ2 := uint8(NebulaMeta_HostUpdateNotification)
	if !amLighthouse {
		typ2 = uint8(NebulaMeta_HostQueryReply)
	}
	second := c35Message(typ2, form2, menu[ci], menu[0])
	from2 := []netip.Addr{c35A1, c35A2}
	if !amLighthouse {
		from2 = []netip.Addr{c35LH}
	}
	var keys [2][5]bool
	var sent [2]int
	for run := 0; run < 2; run++ {
		w := &c35Writer{}
		nets := new(bart.Lite)
		nets.Insert(netip.MustParsePrefix("10.128.0.0/24"))
		lh := &LightHouse{l: c35Log, amLighthouse: amLighthouse, myVpnNetworksTable: nets, punchy: &Punchy{}, addrMap: map[netip.Addr]*RemoteList{}, ifce: w}
		lhs := []netip.Addr{c35LH}
		lh.lighthouses.Store(&lhs)
		lh.remoteAllowList.Store(&RemoteAllowList{})
		lhh := lh.NewRequestHandler()
		if run == 0 {
			lhh.HandleRequest(netip.AddrPortFrom(netip.AddrFrom4([4]byte{9, 9, 9, 9}), 4242), []netip.Addr{c35C}, first, w)
			verifAssert(len(lh.addrMap) == 0 && len(w.to) == 0, "a message type without effect changes nothing")
		}
		lhh.HandleRequest(netip.AddrPortFrom(netip.AddrFrom4([4]byte{9, 9, 9, 8}), 4242), from2, second, w)
		for k, a := range addrs {
			_, keys[run][k] = lh.addrMap[a]
		}
		sent[run] = len(w.to)
	}
	for k := 0; k < 5; k++ {
		verifAssert(keys[0][k] == keys[1][k], "what a message records does not depend on earlier messages served by the same handler")
	}
	verifAssert(sent[0] == sent[1], "what a message is answered with does not depend on earlier messages served by the same handler")
	verifObserve("sent", uint64(sent[1]))
}
