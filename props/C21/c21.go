package iputil

// C21 — reject replies are well formed and never answer errors or fragments.
//
// Reading decisions (DESIGN B.7): the buffer handed to CreateRejectPacket is exactly the IP packet (its length is the
// IP total length / 40 + payload length), and IPv4 packets have IHL >= 5 (newPacket refuses others before any
// rejection can be produced).

func c21IsExt(p uint8) bool { return p == 0 || p == 43 || p == 60 || p == 44 || p == 51 }

// c21Walk6: uncapped reference walk of the IPv6 extension chain.
// ok=false: unresolved; frag: non-first fragment.
func c21Walk6(d []byte) (proto uint8, off int, frag bool, next int, ok bool) {
	nh := d[6]
	off = 40
	for k := 0; k < 13; k++ {
		if !c21IsExt(nh) {
			break
		}
		next++
		if nh == 44 {
			if len(d) < off+8 {
				return 0, 0, false, next, false
			}
			if d[off+2] != 0 || d[off+3]&0xf8 != 0 {
				return d[off], off, true, next, true
			}
			nh = d[off]
			off += 8
			continue
		}
		if len(d) < off+2 {
			return 0, 0, false, next, false
		}
		n := d[off]
		if nh == 51 {
			off += (int(d[off+1]) + 2) * 4
		} else {
			off += (int(d[off+1]) + 1) * 8
		}
		nh = n
	}
	if c21IsExt(nh) || off > len(d) {
		return 0, 0, false, next, false
	}
	return nh, off, false, next, true
}

func c21be32(b []byte) uint32 {
	return uint32(b[0])<<24 | uint32(b[1])<<16 | uint32(b[2])<<8 | uint32(b[3])
}

// c21TCP checks the TCP reset in rep[ipl:] against the offending segment tcpIn (netfilter rule).
func c21TCP(rep []byte, ipl int, tcpIn []byte) {
	t := rep[ipl:]
	verifAssert(len(t) == 20, "TCP reset is a bare 20-byte header")
	verifAssert(t[0] == tcpIn[2] && t[1] == tcpIn[3] && t[2] == tcpIn[0] && t[3] == tcpIn[1], "ports swapped")
	inAck := tcpIn[13]&0x10 != 0
	seq, ack := c21be32(t[4:8]), c21be32(t[8:12])
	if inAck {
		verifAssert(t[13] == 0x04, "offending segment had ACK: reply is a bare RST")
		verifAssert(seq == c21be32(tcpIn[8:12]) && ack == 0, "RST sequence number = acknowledged number of the offending segment")
	} else {
		verifAssert(t[13] == 0x14, "offending segment had no ACK: reply is RST|ACK")
		var syn, fin uint32
		if tcpIn[13]&0x02 != 0 {
			syn = 1
		}
		if tcpIn[13]&0x01 != 0 {
			fin = 1
		}
		segLen := uint32(len(tcpIn)) - uint32(tcpIn[12]>>4)*4
		verifAssert(seq == 0 && ack == c21be32(tcpIn[4:8])+syn+fin+segLen, "ACK number = seq + SYN + FIN + segment length (netfilter)")
	}
	verifAssert(t[12] == 0x50, "data offset 5, no options")
	verifAssert(t[14] == 0 && t[15] == 0 && t[18] == 0 && t[19] == 0, "zero window and urgent pointer")
}

// VerifC21V4: every IPv4 packet of every length 0..96, every output capacity.
func VerifC21V4() {
	const maxIn = 96
	n := verifInt("len", 0, maxIn)
	pkt := verifBytes("pkt", maxIn)[:n]
	capOut := verifInt("cap", 0, 1100)
	out := make([]byte, 1100)[:0:capOut]
	verifAssume(n == 0 || pkt[0]>>4 == 4)
	verifAssume(n < 1 || pkt[0]&15 >= 5) // IHL >= 5
	j := verifInt("j", 0, maxIn)          // Skolem index into the quoted bytes
	rep := CreateRejectPacket(pkt, out)

	wantNil := true
	ihl := 0
	tcp := false
	quoted := 0
	if n >= 20 {
		ihl = int(pkt[0]&15) * 4
		nonFirst := (uint16(pkt[6])<<8|uint16(pkt[7]))&0x1fff != 0
		switch {
		case nonFirst: // never answer non-first fragments
		case pkt[9] == 6:
			tcp = true
			wantNil = n < ihl+20 || capOut < 40
		default:
			icmpErr := false
			if pkt[9] == 1 && n > ihl {
				t := pkt[ihl]
				icmpErr = t == 3 || t == 4 || t == 5 || t == 11 || t == 12
			}
			quoted = ihl + 8
			if n < quoted {
				quoted = n
			}
			wantNil = icmpErr || n < ihl || capOut < 28+quoted
		}
	}
	verifAssert((rep == nil) == wantNil, "a reply is produced exactly when the statement allows one (no fragments, no ICMP errors, buffer large enough)")
	if rep == nil {
		verifObserve("replied", 0)
		return
	}
	verifObserve("replied", 1)
	verifObserve("replen", uint64(len(rep)))
	verifAssert(len(rep) <= 96 && len(rep) <= capOut, "reply no larger than the documented IPv4 maximum and the buffer")
	verifAssert(rep[0] == 0x45 && rep[1] == 0, "IPv4, IHL 5")
	verifAssert(int(rep[2])<<8|int(rep[3]) == len(rep), "total length field equals the reply length")
	verifAssert(rep[6] == 0 && rep[7] == 0, "reply is not a fragment")
	verifAssert(rep[8] != 0, "non-zero TTL")
	for i := 0; i < 4; i++ {
		verifAssert(rep[12+i] == pkt[16+i] && rep[16+i] == pkt[12+i], "sent from the original destination back to the original source")
	}
	if tcp {
		verifAssert(rep[9] == 6 && len(rep) == 40, "TCP is answered by a 40-byte TCP packet")
		c21TCP(rep, 20, pkt[ihl:])
		return
	}
	verifAssert(rep[9] == 1, "non-TCP is answered by ICMP")
	verifAssert(rep[20] == 3 && rep[21] == 13, "destination unreachable / administratively prohibited")
	verifAssert(rep[24] == 0 && rep[25] == 0 && rep[26] == 0 && rep[27] == 0, "unused field zero")
	verifAssert(len(rep) == 28+quoted, "carries the original header and the first 8 payload bytes")
	if j < quoted {
		verifAssert(rep[28+j] == pkt[j], "quoted bytes equal the original packet")
	}
}

// VerifC21V6: every IPv6 packet of every length 0..104 (40 + up to 8 minimal extension headers).
func VerifC21V6() {
	const maxIn = 104
	n := verifInt("len", 0, maxIn)
	pkt := verifBytes("pkt", maxIn)[:n]
	capOut := verifInt("cap", 0, 1100)
	out := make([]byte, 1100)[:0:capOut]
	verifAssume(n > 0 && pkt[0]>>4 == 6)
	j := verifInt("j", 0, maxIn)
	rep := CreateRejectPacket(pkt, out)
	if n < 40 {
		verifAssert(rep == nil, "truncated IPv6 header: no reply")
		return
	}
	proto, off, frag, next, ok := c21Walk6(pkt)
	wantNil := true
	tcp := false
	switch {
	case !ok || frag:
	case next > 8: // beyond nebula's documented walk limit: refusing is allowed, answering is checked below
		if rep == nil {
			return
		}
		fallthrough
	case proto == 6:
		if proto == 6 {
			tcp = true
			wantNil = n < off+20 || capOut < 60
			break
		}
		fallthrough
	default:
		icmpErr := proto == 58 && n > off && pkt[off] >= 1 && pkt[off] <= 4
		wantNil = icmpErr || capOut < 48+n
	}
	verifAssert((rep == nil) == wantNil, "a reply is produced exactly when the statement allows one (resolved chain, no fragment, no ICMPv6 error, buffer large enough)")
	if rep == nil {
		verifObserve("replied", 0)
		return
	}
	verifObserve("replied", 1)
	verifObserve("replen", uint64(len(rep)))
	verifAssert(len(rep) <= 1048 && len(rep) <= capOut, "reply no larger than the documented maximum and the buffer")
	verifAssert(rep[0]>>4 == 6, "IPv6")
	verifAssert(int(rep[4])<<8|int(rep[5]) == len(rep)-40, "payload length field equals the reply payload")
	verifAssert(rep[7] != 0, "non-zero hop limit")
	for i := 0; i < 16; i++ {
		verifAssert(rep[8+i] == pkt[24+i] && rep[24+i] == pkt[8+i], "sent from the original destination back to the original source")
	}
	if tcp {
		verifAssert(rep[6] == 6 && len(rep) == 60, "TCP is answered by a 60-byte TCP packet")
		c21TCP(rep, 40, pkt[off:])
		return
	}
	verifAssert(rep[6] == 58, "non-TCP is answered by ICMPv6")
	verifAssert(rep[40] == 1 && rep[41] == 1, "destination unreachable / administratively prohibited")
	verifAssert(rep[44] == 0 && rep[45] == 0 && rep[46] == 0 && rep[47] == 0, "unused field zero")
	verifAssert(len(rep) == 48+n, "carries the original packet (up to 1000 bytes)")
	if j < n {
		verifAssert(rep[48+j] == pkt[j], "quoted bytes equal the original packet")
	}
}

// VerifC21V6Big: the 1000-byte truncation of the quoted packet (UDP, no extension headers; sizes around the limit).
func VerifC21V6Big() {
	n := verifCase("len")
	pkt := verifBytes("pkt", n)
	verifAssume(pkt[0]>>4 == 6 && pkt[6] == 17)
	capOut := verifInt("cap", 0, 1100)
	out := make([]byte, 1100)[:0:capOut]
	j := verifInt("j", 0, 999)
	rep := CreateRejectPacket(pkt, out)
	q := n
	if q > 1000 {
		q = 1000
	}
	verifAssert((rep == nil) == (capOut < 48+q), "reply iff the buffer can hold 48 + min(len,1000) bytes")
	if rep != nil {
		verifAssert(len(rep) == 48+q && len(rep) <= 1048, "quoted packet truncated to 1000 bytes; reply within the documented maximum")
		verifAssert(int(rep[4])<<8|int(rep[5]) == 8+q, "payload length field")
		if j < q {
			verifAssert(rep[48+j] == pkt[j], "quoted bytes equal the original packet")
		}
	}
}
