package nebula

import (
	"log/slog"

	"github.com/rcrowley/go-metrics"
)

var c11Log = slog.New(slog.DiscardHandler)

// C11 — the replay window accepts each counter exactly once when in range.
//
// One inductive step from an ARBITRARY window state (DESIGN B.1): the pre-state is
// symbolic (any bitmap, any high-water mark), constrained only by the representation
// invariant "the slot of `current` is marked"; one real Check + Update is executed; the
// accept decision and the complete post-state (pointwise, at one Skolem counter j) are
// compared with the statement's rule. Base case: NewBits satisfies the invariant.

// c11InWindow: x is one of the `n` counters ending at cur (x <= cur < x+n, no wrap).
func c11InWindow(n, cur, x uint64) bool {
	if x > cur {
		return false
	}
	return cur-x < n
}

func c11Bits(n uint64) *Bits {
	nw := int(n / 64)
	return &Bits{length: n, lengthMask: n - 1, current: verifU64("cur"), bits: verifWords("bits", nw),
		lostCounter: metrics.NilCounter{}, dupeCounter: metrics.NilCounter{}, outOfWindowCounter: metrics.NilCounter{}}
}

// c11Kind partitions the (high-water mark, counter) plane; it is a total function, so the case split over
// kind = 0..4 is exhaustive by construction. Each case is decided for all values.
func c11Kind(n, cur, i uint64) int {
	switch {
	case i <= cur:
		return 0 // at or below the mark
	case i-cur >= n:
		return 1 // jump of a full window or more
	case cur < n:
		return 2 // jump inside the warm-up window
	case (cur+1)&(n-1)+(i-cur) <= n:
		return 3 // steady-state jump that does not wrap around the circular bitmap
	default:
		return 4 // steady-state jump that wraps
	}
}

func VerifC11Step() {
	n := uint64(verifCase("window"))
	b := c11Bits(n)
	verifAssume(b.get(b.current)) // representation invariant (holds after NewBits and after every accepted Update)
	i, j := verifU64("i"), verifU64("j")
	cur0 := b.current
	verifAssume(c11Kind(n, cur0, i) == verifCase("kind"))
	// known finding: with the high-water mark within one window of 2^64 the sum current+length wraps
	if verifKnown("C11-near-2^64", cur0 >= -n) {
		return
	}
	seenI := c11InWindow(n, cur0, i) && b.get(i)
	seenJ := c11InWindow(n, cur0, j) && b.get(j)
	// the statement's rule: fresh, and either above the high-water mark or inside the window below it
	want := i > cur0 || (c11InWindow(n, cur0, i) && !seenI)

	chk := b.Check(c11Log, i)
	verifAssert(b.current == cur0, "Check does not move the high-water mark")
	verifAssert((c11InWindow(n, cur0, j) && b.get(j)) == seenJ, "Check does not change the window")
	acc := b.Update(c11Log, i)
	verifAssert(acc == chk, "the pre-check predicts the acceptance outcome")
	verifAssert(acc == want, "accepted iff fresh and (above the mark or inside the window)")
	cur1 := cur0
	if want && i > cur0 {
		cur1 = i
	}
	verifAssert(b.current == cur1, "high-water mark = highest accepted counter")
	verifAssert(b.get(cur1), "invariant preserved: slot of the high-water mark is marked")
	if c11InWindow(n, cur1, j) {
		verifAssert(b.get(j) == ((want && j == i) || seenJ), "post-state: a counter of the new window is marked iff it was accepted before or just now")
	}
	var o uint64
	if acc {
		o = 1
	}
	verifObserve("acc", o)
	verifObserve("cur", b.current)
}

// VerifC11Twice: the same counter offered twice in a row is never accepted twice (direct corollary, kept as an
// independent end-to-end obligation from an arbitrary state).
func VerifC11Twice() {
	n := uint64(verifCase("window"))
	b := c11Bits(n)
	verifAssume(b.get(b.current))
	if verifKnown("C11-near-2^64", b.current >= -n) {
		return
	}
	i := verifU64("i")
	k := verifU64("k") // an unrelated counter accepted or rejected in between
	a1 := b.Update(c11Log, i)
	if verifKnown("C11-near-2^64", b.current >= -n) {
		return
	}
	b.Update(c11Log, k)
	if verifKnown("C11-near-2^64", b.current >= -n) {
		return
	}
	a2 := b.Update(c11Log, i)
	verifAssert(!(a1 && a2), "a counter is accepted at most once even with another update in between")
	verifAssert(!b.Check(c11Log, i) || !a1, "pre-check rejects an already accepted counter")
}

// VerifC11Base: NewBits + up to 3 updates from the real initial state: invariant holds and counter 0 is never accepted.
func VerifC11Base() {
	n := uint64(verifCase("window"))
	b := NewBits(n)
	verifAssert(b.get(b.current) && b.current == 0, "fresh window satisfies the invariant")
	verifAssert(!b.Check(c11Log, 0), "counter 0 does not exist")
	x, y := verifU64("x"), verifU64("y")
	verifAssume(x < 1<<62 && y < 1<<62)
	ax := b.Update(c11Log, x)
	verifAssert(ax == (x != 0), "first counter accepted iff non-zero")
	verifAssert(b.get(b.current), "invariant after first update")
	ay := b.Update(c11Log, y)
	wantY := y != 0 && y != x && (y > x || x-y < n)
	verifAssert(ay == wantY, "second counter follows the rule from the initial window")
	verifAssert(b.get(b.current), "invariant after second update")
	verifAssert(!b.Update(c11Log, 0), "counter 0 never accepted")
}
