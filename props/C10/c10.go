package nebula

import (
	"errors"
	"sync"
	"log/slog"
	"net/netip"
)

// C10 — replayed handshakes do not create or replace tunnels; C29 — local indexes are unique and never zero.
//
// The real HandshakeManager.CheckAndComplete / allocateIndex on a responder that already holds 0..3 tunnels to the
// peer (each with an arbitrary first-message, handshake time, role and index), offered a new tunnel built from an
// arbitrary first message.

var c10Log = slog.New(slog.DiscardHandler)

var c10Peer = netip.AddrFrom4([4]byte{10, 0, 0, 2})
var c10Other = netip.AddrFrom4([4]byte{10, 0, 0, 3})

var c10PktNames = [...]string{"pkt0", "pkt1", "pkt2", "pkt_new"}
var c10TimeNames = [...]string{"time0", "time1", "time2", "time_new"}
var c10InitNames = [...]string{"init0", "init1", "init2"}

func c10Tunnel(k int, local uint32, addr netip.Addr) *HostInfo {
	h := &HostInfo{localIndexId: local, remoteIndexId: 100 + local, vpnAddrs: []netip.Addr{addr},
		HandshakePacket:   map[uint8][]byte{0: verifBytes(c10PktNames[k], 3)},
		lastHandshakeTime: verifU64(c10TimeNames[k]), ConnectionState: &ConnectionState{}}
	return h
}

func c10World(n int) (*HandshakeManager, [3]*HostInfo) {
	main := newHostMap(c10Log)
	hm := &HandshakeManager{mainHostMap: main, l: c10Log, vpnIps: map[netip.Addr]*HandshakeHostInfo{}, indexes: map[uint32]*HandshakeHostInfo{}}
	var hs [3]*HostInfo
	f := &Interface{}
	for i := 0; i < n; i++ {
		hs[i] = c10Tunnel(i, uint32(i+1), c10Peer)
		hs[i].ConnectionState.initiator = verifBool(c10InitNames[i])
		main.unlockedAddHostInfo(hs[i], f) // the last one added is the primary
	}
	return hm, hs
}

func c10Same(a, b []byte) bool {
	if len(a) != len(b) {
		return false
	}
	for i := 0; i < len(a); i++ {
		if a[i] != b[i] {
			return false
		}
	}
	return true
}

// VerifC10Replay: a first handshake message arrives at a responder holding n tunnels to the peer.
func VerifC10Replay() {
	n := verifCase("tunnels")
	hm, hs := c10World(n)
	main := hm.mainHostMap
	nh := c10Tunnel(3, uint32(verifInt("new_local_index", 1, 5)), c10Peer)
	// a pending handshake of our own may hold an index too
	pend := &HandshakeHostInfo{hostinfo: &HostInfo{localIndexId: 5, vpnAddrs: []netip.Addr{c10Other}}}
	hm.indexes[5] = pend

	var primary *HostInfo
	if n > 0 {
		primary = main.Hosts[c10Peer]
		verifAssert(primary == hs[n-1], "the newest tunnel is primary")
	}
	replayOf := -1
	for i := 0; i < n; i++ {
		if c10Same(nh.HandshakePacket[0], hs[i].HandshakePacket[0]) && replayOf < 0 {
			replayOf = i
		}
	}
	got, err := hm.CheckAndComplete(nh, 0, &Interface{})

	unchanged := main.Hosts[c10Peer] == primary && len(main.Indexes) == n && main.Indexes[nh.localIndexId] != nh
	for i := 0; i < n; i++ {
		unchanged = unchanged && main.Indexes[hs[i].localIndexId] == hs[i]
	}
	switch {
	case replayOf >= 0:
		verifAssert(errors.Is(err, ErrAlreadySeen), "a re-delivered first message whose tunnel is still held is recognised")
		verifAssert(unchanged, "a replay creates no tunnel and does not change which tunnel is primary")
		verifAssert(got != nil && c10Same(got.HandshakePacket[0], nh.HandshakePacket[0]), "the tunnel returned for a replay is the one that message created (its cached reply is resent)")
	case n > 0 && primary.lastHandshakeTime >= nh.lastHandshakeTime && !primary.ConnectionState.initiator:
		verifAssert(errors.Is(err, ErrExistingHostInfo) && got == primary, "a first message that is not newer than the tunnel accepted as responder is refused")
		verifAssert(unchanged, "an older handshake never replaces the existing tunnel")
	case int(nh.localIndexId) <= n || nh.localIndexId == 5:
		verifAssert(errors.Is(err, ErrLocalIndexCollision), "a local index already in use (established or pending) is never handed out twice")
		verifAssert(unchanged && hm.indexes[5] == pend, "a collision changes nothing")
	default:
		verifAssert(err == nil, "a new, newer handshake on a free index is installed")
		verifAssert(main.Hosts[c10Peer] == nh && main.Indexes[nh.localIndexId] == nh && len(main.Indexes) == n+1, "the new tunnel is primary and indexed")
		verifAssert(got == primary, "the previous primary is reported")
	}
	var o uint64
	switch {
	case err == nil:
		o = 0
	case errors.Is(err, ErrAlreadySeen):
		o = 1
	case errors.Is(err, ErrExistingHostInfo):
		o = 2
	default:
		o = 3
	}
	verifObserve("verdict", o)
}

// ---- C29 ----

// c29Rand replaces crypto/rand.Read inside generateIndex: the k-th draw is an arbitrary 32-bit value
// (zero and values already in use included).
var c29Draws []uint32
var c29Next int
var c29Fallback uint32 = 0x01020304

func c29Read(b []byte) (int, error) {
	v := c29Fallback // after the scripted draws: a fixed free value
	if c29Next < len(c29Draws) {
		v = c29Draws[c29Next]
	}
	c29Next++
	b[0], b[1], b[2], b[3] = byte(v>>24), byte(v>>16), byte(v>>8), byte(v)
	return 4, nil
}

// VerifC29Allocate: allocateIndex with an arbitrary random stream against established and pending indexes.
func VerifC29Allocate() {
	hm, hs := c10World(2) // established indexes 1, 2
	pend := &HandshakeHostInfo{hostinfo: &HostInfo{localIndexId: 5, vpnAddrs: []netip.Addr{c10Other}}}
	hm.indexes[5] = pend
	c29Draws = []uint32{uint32(verifInt("draw0", 0, 6)), uint32(verifInt("draw1", 0, 6)), uint32(verifInt("draw2", 0, 6)), verifU32("draw3")}
	c29Next = 0
	c29Fallback = 0x01020304
	hh := &HandshakeHostInfo{hostinfo: &HostInfo{vpnAddrs: []netip.Addr{c10Other}}}
	idx, err := hm.allocateIndex(hh)
	verifAssert(err == nil, "with a free value in the stream an index is found")
	verifAssert(idx != 0, "a local index is never zero")
	verifAssert(idx != 1 && idx != 2 && idx != 5, "a local index differs from every index currently held (established or pending)")
	verifAssert(hm.indexes[idx] == hh && hh.hostinfo.localIndexId == idx, "the index is recorded for the pending handshake that owns it")
	verifAssert(hm.indexes[5] == pend && hm.mainHostMap.Indexes[1] == hs[0] && hm.mainHostMap.Indexes[2] == hs[1] && len(hm.indexes) == 2, "no other index is released or reassigned")
	// a second allocation while the first is still pending
	hh2 := &HandshakeHostInfo{hostinfo: &HostInfo{vpnAddrs: []netip.Addr{c10Peer}}}
	c29Draws = []uint32{idx, verifU32("draw4")}
	c29Next = 0
	c29Fallback = 0x01020305
	verifAssume(idx != c29Fallback) // the value after the scripted draws is free
	idx2, err2 := hm.allocateIndex(hh2)
	verifAssert(err2 == nil && idx2 != 0 && idx2 != idx && idx2 != 1 && idx2 != 2 && idx2 != 5, "two pending handshakes never share an index")
	// releasing: only the owner's removal frees its index
	hm.unlockedDeleteHostInfo(hh.hostinfo)
	_, still := hm.indexes[idx]
	verifAssert(!still && hm.indexes[idx2] == hh2 && hm.indexes[5] == pend, "deleting a pending handshake releases exactly its own index")
	verifObserve("idx_small", uint64(idx&7))
}

// ---- C29: allocation racing a completion ----
//
// allocateIndex must do its draw, its checks against BOTH tables and its insert inside one critical section of the
// main hostmap's read lock and the manager's lock. Another goroutine's Complete (which needs the main hostmap's WRITE
// lock) is modelled at the one point it could slip in: when allocateIndex asks for the manager's lock while NOT
// holding the main hostmap's read lock. The unit replaces the RWMutex operations by counters to know that.

var c29MainReaders int
var c29Other func()

func c29RLock(m *sync.RWMutex)   { c29MainReaders++ }
func c29RUnlock(m *sync.RWMutex) { c29MainReaders-- }
func c29Lock(m *sync.RWMutex) {
	if c29MainReaders == 0 && c29Other != nil {
		o := c29Other
		c29Other = nil
		o()
	}
}

func VerifC29Race() {
	c29MainReaders, c29Other = 0, nil
	hm, _ := c10World(1) // one established tunnel, index 1
	other := &HostInfo{localIndexId: uint32(verifInt("other_index", 2, 6)), remoteIndexId: 500, vpnAddrs: []netip.Addr{c10Other}, ConnectionState: &ConnectionState{}}
	c29Draws = []uint32{uint32(verifInt("draw0", 0, 6)), uint32(verifInt("draw1", 0, 6))}
	c29Next = 0
	c29Fallback = 0x01020304
	c29Other = func() {
		// the other handshake completes: its index enters the main table (Complete holds the write lock)
		hm.mainHostMap.unlockedAddHostInfo(other, &Interface{})
	}
	hh := &HandshakeHostInfo{hostinfo: &HostInfo{vpnAddrs: []netip.Addr{c10Peer}}}
	idx, err := hm.allocateIndex(hh)
	verifAssert(err == nil && idx != 0, "an index is found")
	if holder, ok := hm.mainHostMap.Indexes[idx]; ok {
		verifAssert(holder == hh.hostinfo, "an index handed to a pending handshake is not simultaneously held by an established tunnel")
	}
	verifAssert(idx != 1, "an index differs from every established index")
	verifObserve("idx", uint64(idx&7))
}
