package nebula

import (
	"log/slog"
	"net/netip"
	"time"

	"github.com/gaissmai/bart"
	"github.com/slackhq/nebula/cert"
	"github.com/slackhq/nebula/firewall"
)

// C17 — overlay source and destination addresses are authentic.
//
// Everything that could let a packet through is switched ON: allow-everything rules in both directions, the flow
// already tracked in conntrack AND present in the routine-local cache. The packet addresses are fully symbolic.
// Whatever Drop admits must satisfy the address rule of the statement.

var c17Log = slog.New(slog.DiscardHandler)

func c17Addr4(name string) netip.Addr {
	b := verifBytes(name, 4)
	return netip.AddrFrom4([4]byte{b[0], b[1], b[2], b[3]})
}

func VerifC17Gates() {
	// node: address 10.1.0.1/16, optionally a second network 10.9.0.1/24 and an unsafe network 192.168.0.0/24
	myCert := &vCert{name: "me", networks: []netip.Prefix{netip.MustParsePrefix("10.1.0.1/16")}}
	myNets := new(bart.Lite)
	myNets.Insert(netip.MustParsePrefix("10.1.0.0/16"))
	twoNets := verifBool("node_two_networks")
	if twoNets {
		myCert.networks = append(myCert.networks, netip.MustParsePrefix("10.9.0.1/24"))
		myNets.Insert(netip.MustParsePrefix("10.9.0.0/24"))
	}
	ownUnsafe := verifBool("node_unsafe_network")
	if ownUnsafe {
		myCert.unsafe = []netip.Prefix{netip.MustParsePrefix("192.168.0.0/24")}
	}
	fw := NewFirewall(c17Log, time.Minute, time.Minute, time.Minute, myCert)
	verifAssert(fw.AddRule(true, firewall.ProtoAny, 0, 0, nil, "any", "", "any", "", "") == nil, "allow-all inbound")
	verifAssert(fw.AddRule(false, firewall.ProtoAny, 0, 0, nil, "any", "", "any", "", "") == nil, "allow-all outbound")

	// peer: 1..3 certified addresses (any IPv4 address each, so inside or outside the node's networks), <=1 unsafe network
	nAddr := verifCase("peer_addrs")
	names := [3]string{"peer_a0", "peer_a1", "peer_a2"}
	var pAddrs [3]netip.Addr
	peer := &vCert{name: "peer", issuer: "sha-one"}
	for i := 0; i < nAddr; i++ {
		pAddrs[i] = c17Addr4(names[i])
		peer.networks = append(peer.networks, netip.PrefixFrom(pAddrs[i], 16))
	}
	peerUnsafe := verifBool("peer_unsafe_network")
	peerUnsafeNet := netip.PrefixFrom(netip.AddrFrom4([4]byte{172, 16, verifU8("peer_unsafe_octet"), 0}), 24)
	if peerUnsafe {
		peer.unsafe = []netip.Prefix{peerUnsafeNet}
	}
	h := &HostInfo{ConnectionState: &ConnectionState{peerCert: vCached(peer)}}
	// vpnAddrs as the handshake computes them: the certified addresses inside the node's networks
	for i := 0; i < nAddr; i++ {
		if myNets.Contains(pAddrs[i]) {
			h.vpnAddrs = append(h.vpnAddrs, pAddrs[i])
		}
	}
	verifAssume(len(h.vpnAddrs) > 0) // a tunnel only exists for a peer with a usable address
	h.buildNetworks(myNets, peer)

	p := firewall.Packet{RemoteAddr: c17Addr4("remote"), LocalAddr: c17Addr4("local"), LocalPort: verifU16("lport"), RemotePort: verifU16("rport"), Protocol: verifU8("proto"), Fragment: verifBool("fragment")}
	incoming := verifBool("incoming")
	// prior tracked flow + local cache hit for exactly this tuple
	if verifBool("tracked") {
		fw.Conntrack.Conns[p] = &conn{incoming: incoming, rulesVersion: fw.rulesVersion}
	}
	var cache firewall.ConntrackCache
	if verifBool("cached") {
		cache = firewall.ConntrackCache{p: struct{}{}}
	}
	pool := cert.NewCAPool()
	err := fw.Drop(p, incoming, h, pool, cache)

	remoteOK := false
	for i := 0; i < nAddr; i++ {
		if p.RemoteAddr == pAddrs[i] && myNets.Contains(pAddrs[i]) {
			remoteOK = true
		}
	}
	if peerUnsafe && peerUnsafeNet.Contains(p.RemoteAddr) {
		remoteOK = true
	}
	localOK := p.LocalAddr == netip.AddrFrom4([4]byte{10, 1, 0, 1}) ||
		(twoNets && p.LocalAddr == netip.AddrFrom4([4]byte{10, 9, 0, 1})) ||
		(ownUnsafe && netip.MustParsePrefix("192.168.0.0/24").Contains(p.LocalAddr))
	if err == nil {
		verifAssert(remoteOK, "an admitted packet's peer-side address is a certified address of the peer inside the node's networks, or inside the peer's unsafe networks")
		verifAssert(localOK, "an admitted packet's node-side address is one of the node's own addresses or inside its unsafe networks")
		verifObserve("admitted", 1)
	} else {
		// with allow-everything rules the address gates are the only reason to drop; a certified address of the
		// peer that lies outside the node's networks is refused even when the peer's unsafe network covers it
		peerOnly := false
		for i := 0; i < nAddr; i++ {
			if p.RemoteAddr == pAddrs[i] && !myNets.Contains(pAddrs[i]) {
				peerOnly = true
			}
		}
		verifAssert(!remoteOK || !localOK || peerOnly, "with allow-all rules only the address gates drop")
		verifObserve("admitted", 0)
	}
}
