package nebula

import (
	"errors"
	"log/slog"
	"net/netip"

	"github.com/slackhq/nebula/cert"
	"github.com/slackhq/nebula/config"
)

// C42 — certificate reload never changes a node's identity.
//
// The real PKI.reloadCerts (non-initial) and PKI.reloadCAPool, with the two loaders that read files
// (newCertStateFromConfig, loadCAPoolFromConfig) replaced by functions returning an arbitrary state of the menu:
// v1 only / v2 only / both, networks N1 or N2, Curve25519 or P-256, or a load error.

var c42Log = slog.New(slog.DiscardHandler)

var c42N1 = []netip.Prefix{netip.MustParsePrefix("10.0.0.1/24")}
var c42N2 = []netip.Prefix{netip.MustParsePrefix("10.9.9.9/24")}

// c42State draws a certificate state that newCertState would accept: when both versions are present they share
// the curve and the primary network (newCertState refuses anything else).
func c42State(prefix string) *CertState {
	shape := verifInt(prefix+"_shape", 0, 2) // 0: v1 only, 1: v2 only, 2: both
	nets := c42N1
	if verifBool(prefix + "_net2") {
		nets = c42N2
	}
	curve := cert.Curve_CURVE25519
	if verifBool(prefix + "_p256") {
		curve = cert.Curve_P256
	}
	cs := &CertState{cipher: "aes"}
	if shape != 1 {
		cs.v1Cert = &vCert{name: "me", ver: cert.Version1, networks: nets, curve: curve}
	}
	if shape != 0 {
		v2nets := nets
		if verifBool(prefix + "_v2_extra_network") {
			// a v2 certificate may carry more networks than its v1 twin (newCertState compares the primary one only)
			v2nets = []netip.Prefix{nets[0], netip.MustParsePrefix("fd00::1/64")}
		}
		cs.v2Cert = &vCert{name: "me", ver: cert.Version2, networks: v2nets, curve: curve}
	}
	return cs
}

func c42Nets(cs *CertState) []netip.Prefix {
	if cs.v2Cert != nil {
		return cs.v2Cert.Networks()
	}
	return cs.v1Cert.Networks()
}

func c42SameNets(a, b []netip.Prefix) bool {
	if len(a) != len(b) {
		return false
	}
	for i := range a {
		if a[i] != b[i] {
			return false
		}
	}
	return true
}

// c42V1Nets: the v1 certificate's networks (nil when absent); a reload that changes them while a v1 cert stays is refused too.
func c42V1Nets(cs *CertState) []netip.Prefix {
	if cs.v1Cert == nil {
		return nil
	}
	return cs.v1Cert.Networks()
}

func c42Curve(cs *CertState) cert.Curve {
	if cs.v2Cert != nil {
		return cs.v2Cert.Curve()
	}
	return cs.v1Cert.Curve()
}

var c42Next *CertState
var c42NextErr error

func c42NewCertState(c *config.C, cipher string) (*CertState, error) { return c42Next, c42NextErr }

var c42NextPool *cert.CAPool

func c42LoadCAPool(l *slog.Logger, c *config.C) (*cert.CAPool, error) {
	if c42NextPool == nil {
		return nil, errors.New("unreadable CA bundle")
	}
	return c42NextPool, nil
}

func VerifC42Reload() {
	cur := c42State("cur")
	p := &PKI{l: c42Log}
	p.cs.Store(cur)
	oldPool := cert.NewCAPool()
	p.caPool.Store(oldPool)

	c42Next, c42NextErr = c42State("new"), nil
	if verifBool("load_fails") {
		c42Next, c42NextErr = nil, errors.New("could not load")
	}
	if verifKnown("C42-v1-only-to-v2-only-unchecked", c42NextErr == nil && cur.v2Cert == nil && c42Next.v1Cert == nil) {
		return
	}
	cerr := p.reloadCerts(config.NewC(c42Log), false)
	now := p.cs.Load()
	if cerr != nil || c42NextErr != nil {
		verifAssert(cerr != nil, "a failed load is reported")
		verifAssert(now == cur, "a refused reload leaves the previous certificates in use")
	} else {
		verifAssert(now == c42Next, "an accepted reload installs the new certificates")
	}
	// whatever happened, the identity in use did not change
	// identity: same curve, same primary network, and no overlay network the node had is lost (a v2 certificate
	// added next to a v1 one may bring further networks: nebula allows that on purpose)
	kept := true
	for _, n := range c42Nets(cur) {
		found := false
		for _, m := range c42Nets(now) {
			if m == n {
				found = true
			}
		}
		kept = kept && found
	}
	same := kept && c42Nets(now)[0] == c42Nets(cur)[0] && c42Curve(now) == c42Curve(cur)
	verifAssert(same, "after any reload the node has the same curve and primary network and has lost none of its overlay networks")
	// completeness: a reload that keeps networks and curve and does not drop v2 without v1 is accepted
	renewal := c42NextErr == nil && (c42Next.v1Cert == nil) == (cur.v1Cert == nil) && (c42Next.v2Cert == nil) == (cur.v2Cert == nil) &&
		c42SameNets(c42Nets(c42Next), c42Nets(cur)) && c42SameNets(c42V1Nets(c42Next), c42V1Nets(cur)) && c42Curve(c42Next) == c42Curve(cur)
	if renewal {
		verifAssert(cerr == nil, "a renewal (same versions, networks and curve) is accepted")
	}

	// trust store: an unreadable CA bundle keeps the previous pool
	c42NextPool = nil
	newPool := cert.NewCAPool()
	if verifBool("ca_readable") {
		c42NextPool = newPool
	}
	perr := p.reloadCAPool(config.NewC(c42Log))
	if c42NextPool == nil {
		verifAssert(perr != nil && p.caPool.Load() == oldPool, "an unreadable CA bundle keeps the previous trust store")
	} else {
		verifAssert(perr == nil && p.caPool.Load() == newPool, "a readable CA bundle replaces the trust store")
	}
	var o uint64
	if cerr == nil {
		o = 1
	}
	verifObserve("accepted", o)
}
