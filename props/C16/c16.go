package nebula

import (
	"log/slog"
	"net/netip"
	"time"

	"github.com/gaissmai/bart"
	"github.com/slackhq/nebula/cert"
	"github.com/slackhq/nebula/firewall"
)

// C16 — firewall verdicts follow the rule semantics. C17 — overlay addresses are authentic.
//
// Rules are added through the real AddRule from symbolic menu choices; a symbolic packet from a symbolic peer is
// judged by the real Drop and by a reference evaluator over the flat rule list (DESIGN B.2).

var c16Log = slog.New(slog.DiscardHandler)

type c16Rule struct {
	incoming     bool
	proto        uint8 // 0 any, 6, 17, 1
	lo, hi       int32
	groups       []string
	host         string
	cidr         string
	localCidr    string
	caName, caSha string
}

// symbolic choice from fixed menus (every combination is covered)
func c16Groups(name string) []string {
	switch verifInt(name, 0, 4) {
	case 0:
		return nil
	case 1:
		return []string{"g1"}
	case 2:
		return []string{"g1", "g2"}
	case 3:
		return []string{"any"}
	}
	return []string{"g3", "any"}
}

func c16Pick(name string, a, b, c, d string) string {
	switch verifInt(name, 0, 3) {
	case 0:
		return a
	case 1:
		return b
	case 2:
		return c
	}
	return d
}

func c16In(cidr string, a netip.Addr) bool {
	p, err := netip.ParsePrefix(cidr)
	return err == nil && p.Contains(a)
}

func c16HasAll(peerGroups [3]bool, groups []string) bool {
	for _, g := range groups {
		switch g {
		case "g1":
			if !peerGroups[0] {
				return false
			}
		case "g2":
			if !peerGroups[1] {
				return false
			}
		case "g3":
			if !peerGroups[2] {
				return false
			}
		default:
			return false
		}
	}
	return true
}

// c16Allows: reference semantics of one rule (DESIGN B.2), written from the documented evaluation order
// "proto AND port AND (CA sha OR CA name) AND local CIDR AND (group(s) OR host OR remote CIDR)".
func c16Allows(r c16Rule, incoming bool, p firewall.Packet, peerName string, peerGroups [3]bool, issuer string, issuerName string, issuerKnown bool, unsafeLocal bool, defaultLocalAny bool, myNet string) bool {
	if r.incoming != incoming {
		return false
	}
	isICMP := p.Protocol == firewall.ProtoICMP || p.Protocol == firewall.ProtoICMPv6
	switch r.proto {
	case 0:
	case 1:
		if !isICMP {
			return false
		}
	default:
		if p.Protocol != r.proto {
			return false
		}
	}
	lo, hi := r.lo, r.hi
	if r.proto == 1 { // ICMP rules have no ports
		lo, hi = 0, 0
	}
	portAny := lo == 0 // a range starting at 0 is `any`... only the literal (0,0) reaches AddRule from the parser
	if isICMP {
		if !(lo <= 0 && 0 <= hi) {
			return false
		}
	} else {
		var q int32
		if p.Fragment {
			q = -1
		} else if incoming {
			q = int32(p.LocalPort)
		} else {
			q = int32(p.RemotePort)
		}
		if !((lo <= q && q <= hi) || (lo <= 0 && 0 <= hi)) {
			return false
		}
		_ = portAny
	}
	// CA
	if !(r.caName == "" && r.caSha == "") {
		okCA := (r.caSha != "" && r.caSha == issuer) || (r.caName != "" && issuerKnown && r.caName == issuerName)
		if !okCA {
			return false
		}
	}
	// local CIDR
	localOK := false
	switch {
	case r.localCidr == "any":
		localOK = true
	case r.localCidr == "":
		localOK = !unsafeLocal || defaultLocalAny || c16In(myNet, p.LocalAddr)
	default:
		localOK = c16In(r.localCidr, p.LocalAddr)
	}
	if !localOK {
		return false
	}
	// peer selector
	anySel := (len(r.groups) == 0 && r.host == "" && r.cidr == "") || r.host == "any" || r.cidr == "any"
	for _, g := range r.groups {
		if g == "any" {
			anySel = true
		}
	}
	if anySel {
		return true
	}
	if len(r.groups) > 0 && c16HasAll(peerGroups, r.groups) {
		return true
	}
	if r.host != "" && r.host == peerName {
		return true
	}
	if r.cidr != "" && c16In(r.cidr, p.RemoteAddr) {
		return true
	}
	return false
}

func c16Addr(name string) netip.Addr {
	b := verifBytes(name, 2)
	return netip.AddrFrom4([4]byte{10, 1, b[0], b[1]})
}

func VerifC16Verdict() {
	nRules := verifCase("rules")
	unsafeLocal := verifBool("own_unsafe_network")
	myCert := &vCert{name: "me", networks: []netip.Prefix{netip.MustParsePrefix("10.1.0.1/16")}}
	if unsafeLocal {
		myCert.unsafe = []netip.Prefix{netip.MustParsePrefix("192.168.0.0/24")}
	}
	fw := NewFirewall(c16Log, time.Minute, time.Minute, time.Minute, myCert)
	fw.defaultLocalCIDRAny = verifBool("default_local_cidr_any")

	// the rule itself is a case split (every menu combination is its own job); packet and peer stay symbolic
	var rules [2]c16Rule
	for i := 0; i < nRules; i++ {
		sfx := ""
		if i == 1 {
			sfx = "2"
		}
		r := c16Rule{incoming: verifCase("dir"+sfx) == 1}
		switch verifCase("proto" + sfx) {
		case 0:
			r.proto = firewall.ProtoAny
		case 1:
			r.proto = firewall.ProtoTCP
		case 2:
			r.proto = firewall.ProtoUDP
		default:
			r.proto = firewall.ProtoICMP
		}
		switch verifCase("port" + sfx) {
		case 0:
			r.lo, r.hi = firewall.PortAny, firewall.PortAny
		case 1:
			r.lo, r.hi = firewall.PortFragment, firewall.PortFragment
		case 2:
			r.lo, r.hi = 80, 80
		default:
			r.lo, r.hi = 80, 81
		}
		switch verifCase("sel" + sfx) { // peer selector
		case 0:
		case 1:
			r.groups = []string{"g1"}
		case 2:
			r.groups = []string{"g1", "g2"}
		case 3:
			r.groups = []string{"g3", "any"}
		case 4:
			r.host = "h1"
		case 5:
			r.host = "any"
		case 6:
			r.cidr = "10.1.2.0/24"
		case 7:
			r.cidr = "any"
		case 8:
			r.groups, r.host = []string{"g2"}, "h2"
		case 10:
			r.cidr = "10.1.0.0/16"
		default:
			r.host, r.cidr = "h1", "10.1.0.0/16"
		}
		switch verifCase("local" + sfx) {
		case 0:
		case 1:
			r.localCidr = "any"
		case 2:
			r.localCidr = "10.1.0.1/32"
		default:
			r.localCidr = "192.168.0.0/25"
		}
		switch verifCase("ca" + sfx) {
		case 0:
		case 1:
			r.caName = "ca-one"
		case 2:
			r.caSha = "sha-two"
		default:
			r.caName, r.caSha = "ca-one", "sha-two"
		}
		err := fw.AddRule(r.incoming, r.proto, r.lo, r.hi, r.groups, r.host, r.cidr, r.localCidr, r.caName, r.caSha)
		verifAssert(err == nil, "a well-formed rule is accepted")
		rules[i] = r
	}

	// peer
	peerGroups := [3]bool{verifBool("peer_g1"), verifBool("peer_g2"), verifBool("peer_g3")}
	var pg []string
	if peerGroups[0] {
		pg = append(pg, "g1")
	}
	if peerGroups[1] {
		pg = append(pg, "g2")
	}
	if peerGroups[2] {
		pg = append(pg, "g3")
	}
	peerName := c16Pick("peer_name", "h1", "h2", "h3", "any")
	issuer := c16Pick("peer_issuer", "sha-one", "sha-two", "sha-unknown", "sha-one")
	peerAddr := c16Addr("peer_addr")
	peer := &vCert{name: peerName, issuer: issuer, groups: pg, networks: []netip.Prefix{netip.PrefixFrom(peerAddr, 16)}}
	pool := cert.NewCAPool()
	pool.CAs["sha-one"] = vCached(&vCert{name: "ca-one", isCA: true})
	pool.CAs["sha-two"] = vCached(&vCert{name: "ca-two", isCA: true})
	issuerKnown := issuer == "sha-one" || issuer == "sha-two"
	issuerName := "ca-one"
	if issuer == "sha-two" {
		issuerName = "ca-two"
	}
	myNets := new(bart.Lite)
	myNets.Insert(netip.MustParsePrefix("10.1.0.0/16"))
	h := &HostInfo{vpnAddrs: []netip.Addr{peerAddr}, ConnectionState: &ConnectionState{peerCert: vCached(peer)}}
	h.buildNetworks(myNets, peer)

	// packet: remote = the peer's certified address, local = me (C17 covers the address gates)
	incoming := verifBool("incoming")
	p := firewall.Packet{RemoteAddr: peerAddr, LocalPort: verifU16("lport"), RemotePort: verifU16("rport"), Fragment: verifBool("fragment")}
	if verifBool("to_unsafe_local") && unsafeLocal {
		p.LocalAddr = netip.AddrFrom4([4]byte{192, 168, 0, verifU8("local_low")})
	} else {
		p.LocalAddr = netip.AddrFrom4([4]byte{10, 1, 0, 1})
	}
	switch verifInt("pkt_proto", 0, 4) {
	case 0:
		p.Protocol = firewall.ProtoTCP
	case 1:
		p.Protocol = firewall.ProtoUDP
	case 2:
		p.Protocol = firewall.ProtoICMP
	case 3:
		p.Protocol = firewall.ProtoICMPv6
	default:
		p.Protocol = 47
	}

	got := fw.Drop(p, incoming, h, pool, nil)
	want := false
	for i := 0; i < nRules; i++ {
		if c16Allows(rules[i], incoming, p, peerName, peerGroups, issuer, issuerName, issuerKnown, unsafeLocal, fw.defaultLocalCIDRAny, "10.1.0.1/16") {
			want = true
		}
	}
	verifAssert((got == nil) == want, "the packet passes exactly when some rule of its direction admits it (no conntrack entry exists)")
	if got == nil {
		_, tracked := fw.Conntrack.Conns[p]
		verifAssert(tracked, "an admitted packet creates a conntrack entry")
		verifObserve("verdict", 1)
	} else {
		verifAssert(got == ErrNoMatchingRule, "a packet with authentic addresses and no matching rule is dropped for that reason")
		verifObserve("verdict", 0)
	}
}
