package nebula

import (
	"log/slog"
	"net/netip"
	"sync"

	"github.com/gaissmai/bart"
	"github.com/slackhq/nebula/cert"
	"github.com/slackhq/nebula/header"
)

// C39 — relays forward only for the pair they were set up for.
//
// Node R holds tunnels to X (two overlay addresses), T and Z. Unit forward runs the real handleOutsideRelayPacket
// on an authenticated relay packet from X under arbitrary relay tables; unit request runs the real
// handleCreateRelayRequest with arbitrary claimed addresses. The senders (SendVia, SendMessageToHostInfo) and the
// parts of the receive path that belong to other properties are replaced by recorders / no-ops.

var c39Log = slog.New(slog.DiscardHandler)

var (
	c39Me = netip.AddrFrom4([4]byte{10, 0, 0, 1})
	c39X  = netip.AddrFrom4([4]byte{10, 0, 0, 10})
	c39X2 = netip.AddrFrom4([4]byte{10, 0, 0, 11})
	c39T  = netip.AddrFrom4([4]byte{10, 0, 0, 20})
	c39Z  = netip.AddrFrom4([4]byte{10, 0, 0, 30})
	c39U  = netip.AddrFrom4([4]byte{10, 0, 0, 40}) // no tunnel
)

var c39Menu = [...]netip.Addr{c39X, c39X2, c39T, c39Z, c39Me, c39U}

type c39Sent struct {
	via   *HostInfo
	relay *Relay
}

var c39Vias []c39Sent
var c39Ctl []*HostInfo
var c39Local int
var c39Shakes []netip.Addr

func c39SendVia(f *Interface, via *HostInfo, relay *Relay, ad, nb, out []byte, nocopy bool, q int) {
	c39Vias = append(c39Vias, c39Sent{via, relay})
}
func c39SendCtl(f *Interface, t header.MessageType, st header.MessageSubType, hostinfo *HostInfo, p, nb, out []byte) {
	c39Ctl = append(c39Ctl, hostinfo)
}
func c39ReadOutside(f *Interface, via ViaSender, packet []byte, rxc *rxContext) { c39Local++ }
func c39Handshake(f *Interface, vpnAddr netip.Addr)                          { c39Shakes = append(c39Shakes, vpnAddr) }

// c39Read replaces crypto/rand.Read (relay index generation): successive distinct non-zero values.
var c39Rand uint32

func c39Read(b []byte) (int, error) {
	c39Rand++
	b[0], b[1], b[2], b[3] = 0, 0, 0x11, byte(c39Rand)
	return 4, nil
}

type c39World struct {
	f          *Interface
	rm         *relayManager
	x, t, z    *HostInfo
}

func c39Host(idx uint32, direct bool, addrs ...netip.Addr) *HostInfo {
	h := &HostInfo{localIndexId: idx, remoteIndexId: 100 + idx, vpnAddrs: addrs, ConnectionState: &ConnectionState{dKey: &vCipher{}, eKey: &vCipher{}},
		relayState: RelayState{relayForByAddr: map[netip.Addr]*Relay{}, relayForByIdx: map[uint32]*Relay{}}}
	if direct {
		ap := netip.AddrPortFrom(netip.AddrFrom4([4]byte{192, 0, 2, byte(idx)}), 4242)
		h.remote.Store(&ap)
	}
	return h
}

func c39Build(amRelay bool, tDirect bool) *c39World {
	c39Vias, c39Ctl, c39Local, c39Shakes, c39Rand = nil, nil, 0, nil, 0
	hm := newHostMap(c39Log)
	mine := new(bart.Lite)
	mine.Insert(netip.PrefixFrom(c39Me, 32))
	f := &Interface{l: c39Log, hostMap: hm, myVpnAddrsTable: mine,
		connectionManager: &connectionManager{relayUsed: map[uint32]struct{}{}, relayUsedLock: &sync.RWMutex{}}, messageMetrics: &MessageMetrics{}}
	rm := &relayManager{l: c39Log, hostmap: hm}
	rm.amRelay.Store(amRelay)
	f.relayManager = rm
	w := &c39World{f: f, rm: rm, x: c39Host(1, true, c39X, c39X2), t: c39Host(2, tDirect, c39T), z: c39Host(3, true, c39Z)}
	in := &Interface{}
	hm.unlockedAddHostInfo(w.x, in)
	hm.unlockedAddHostInfo(w.t, in)
	hm.unlockedAddHostInfo(w.z, in)
	return w
}

func c39Relay(name string, local uint32) *Relay {
	return &Relay{Type: verifInt(name+"_type", 0, 2), State: verifInt(name+"_state", 0, 4), LocalIndex: local, RemoteIndex: 500 + local,
		PeerAddr: c39Menu[verifInt(name+"_peer", 0, 5)]}
}

// VerifC39Forward: an authenticated relay packet from X arrives on relay index 7.
func VerifC39Forward() {
	w := c39Build(true, true)
	// arbitrary relay tables: X's entry for index 7; T and Z may each hold an entry filed under one of the menu addresses
	rx := c39Relay("x7", 7)
	w.x.relayState.InsertRelay(rx.PeerAddr, 7, rx)
	w.f.hostMap.Relays[7] = w.x
	var rt, rz *Relay
	var rtFor, rzFor netip.Addr
	if verifBool("t_has_relay") {
		rt = c39Relay("t8", 8)
		rtFor = rt.PeerAddr
		w.t.relayState.InsertRelay(rtFor, 8, rt)
	}
	if verifBool("z_has_relay") {
		rz = c39Relay("z9", 9)
		rzFor = rz.PeerAddr
		w.z.relayState.InsertRelay(rzFor, 9, rz)
	}
	pkt := make([]byte, header.Len+8+16)
	rxc := &rxContext{h: &header.H{Type: header.Message, Subtype: header.MessageRelay, RemoteIndex: 7}, nb: make([]byte, 12)}
	w.f.handleOutsideRelayPacket(w.x, ViaSender{UdpAddr: w.x.GetRemote()}, pkt, rxc)

	verifAssert(len(c39Vias) <= 1 && c39Local <= 1 && !(len(c39Vias) == 1 && c39Local == 1), "a relay packet is delivered locally or forwarded once, never both")
	if c39Local == 1 {
		verifAssert(rx.Type == TerminalType, "only a terminal relay delivers the inner packet locally")
	}
	if len(c39Vias) == 1 {
		s := c39Vias[0]
		verifAssert(rx.Type == ForwardingType, "only a forwarding relay entry forwards")
		owns := false
		for _, a := range s.via.vpnAddrs {
			if a == rx.PeerAddr {
				owns = true
			}
		}
		verifAssert(owns, "the onward tunnel belongs to the peer this relay entry was set up for")
		verifAssert(s.relay.State == Established && s.relay.Type == ForwardingType, "forwarding needs an established onward leg of forwarding type")
		verifAssert(s.relay.PeerAddr == c39X || s.relay.PeerAddr == c39X2, "the onward leg was negotiated for the authenticated sender, not for a third peer")
		verifAssert((s.via == w.t && s.relay == rt) || (s.via == w.z && s.relay == rz) || (s.via == w.x && s.relay == rx), "the onward leg is an entry of the onward tunnel's own relay table")
	}
	verifObserve("forwarded", uint64(len(c39Vias)))
	verifObserve("local", uint64(c39Local))
}

// VerifC39Request: X sends CreateRelayRequest(from, to, index) with arbitrary claimed addresses.
func VerifC39Request() {
	amRelay := verifBool("am_relay")
	tDirect := verifBool("target_has_direct_remote")
	w := c39Build(amRelay, tDirect)
	from := c39Menu[verifInt("from", 0, 5)]
	to := c39Menu[verifInt("to", 0, 5)]
	idx := verifU32("initiator_index")
	m := &NebulaControl{Type: NebulaControl_CreateRelayRequest, InitiatorRelayIndex: idx, RelayFromAddr: netAddrToProtoAddr(from), RelayToAddr: netAddrToProtoAddr(to)}
	v := cert.Version2
	if verifBool("v1") {
		v = cert.Version1
	}
	w.rm.handleCreateRelayRequest(v, w.x, w.f, m)

	nx, nt, nz := len(w.x.relayState.relayForByIdx), len(w.t.relayState.relayForByIdx), len(w.z.relayState.relayForByIdx)
	switch {
	case from == c39Me:
		verifAssert(nx+nt+nz == 0 && len(c39Ctl) == 0 && len(w.f.hostMap.Relays) == 0, "a request naming this node as the source is discarded")
	case to == c39Me:
		// terminal: the relay is recorded on the requesting tunnel, answered to it, nothing else changes
		verifAssert(nt+nz == 0 && nx == 1, "a terminal relay is recorded on the tunnel that asked, and nowhere else")
		r, ok := w.x.relayState.QueryRelayForByIp(from)
		verifAssert(ok && r.Type == TerminalType && r.State == Established && r.RemoteIndex == idx && r.LocalIndex != 0, "the terminal relay carries the requester's index and a fresh non-zero local index")
		verifAssert(ok && w.f.hostMap.Relays[r.LocalIndex] == w.x, "the relay index is owned by the tunnel it arrived on")
		verifAssert(len(c39Ctl) == 1 && c39Ctl[0] == w.x, "the response goes back on the same tunnel")
	case !amRelay:
		verifAssert(nx+nt+nz == 0 && len(c39Ctl) == 0 && len(w.f.hostMap.Relays) == 0, "a node that is not configured as a relay ignores requests to forward")
	default:
		var peer *HostInfo
		switch to {
		case c39X, c39X2:
			peer = w.x
		case c39T:
			peer = w.t
		case c39Z:
			peer = w.z
		}
		if peer == nil {
			verifAssert(nx+nt+nz == 0 && len(c39Ctl) == 0, "without a tunnel to the target nothing is set up (a handshake is started)")
			verifAssert(len(c39Shakes) == 1 && c39Shakes[0] == to, "a handshake to the target is started")
		} else if peer == w.t && !tDirect {
			verifAssert(nx+nt+nz == 0 && len(c39Ctl) == 0, "relays are only created to peers reached directly")
		} else {
			verifAssert(len(c39Ctl) == 1 && c39Ctl[0] == peer, "the onward request goes to the target's tunnel only")
			rp, ok := peer.relayState.QueryRelayForByIp(from)
			verifAssert(ok && rp.Type == ForwardingType && rp.State == Requested, "the onward leg waits in state Requested")
			rh, ok2 := w.x.relayState.QueryRelayForByIp(to)
			verifAssert(ok2 && rh.Type == ForwardingType && (peer == w.x || rh.State == PeerRequested), "the inbound leg is PeerRequested: nothing is forwarded before the target answers")
			verifAssert(w.z == peer || nz == 0, "no third tunnel is touched")
		}
	}
	verifObserve("ctl", uint64(len(c39Ctl)))
	verifObserve("relays", uint64(nx+nt+nz))
}

// VerifC39Cleanup: relay indexes disappear with the tunnel that owns them, whether or not another tunnel to the same
// peer remains.
func VerifC39Cleanup() {
	w := c39Build(true, true)
	hm := w.f.hostMap
	sibling := verifBool("sibling_tunnel_remains")
	x2 := c39Host(4, true, c39X, c39X2)
	if sibling {
		hm.unlockedAddHostInfo(x2, &Interface{}) // a second tunnel to X (re-handshake): x2 is primary, w.x stays in the list
	}
	// w.x owns two relay entries of arbitrary type and state
	r1, r2 := c39Relay("r7", 7), c39Relay("r8", 8)
	verifAssume(r1.PeerAddr != r2.PeerAddr)
	w.x.relayState.InsertRelay(r1.PeerAddr, 7, r1)
	w.x.relayState.InsertRelay(r2.PeerAddr, 8, r2)
	hm.Relays[7], hm.Relays[8] = w.x, w.x
	// an unrelated relay index of another tunnel
	rz := &Relay{Type: ForwardingType, State: Established, LocalIndex: 9, RemoteIndex: 509, PeerAddr: c39X}
	w.z.relayState.InsertRelay(c39X, 9, rz)
	hm.Relays[9] = w.z

	final := hm.unlockedDeleteHostInfo(w.x)
	verifAssert(final == !sibling, "the last-tunnel report follows the sibling")
	_, has7 := hm.Relays[7]
	_, has8 := hm.Relays[8]
	verifAssert(!has7 && !has8, "relay indexes disappear with the tunnel that owns them, even when another tunnel to the peer remains")
	verifAssert(hm.Relays[9] == w.z, "relay indexes of other tunnels stay")
	verifObserve("relays_left", uint64(len(hm.Relays)))
}
