package routing

import (
	"net/netip"

	"github.com/slackhq/nebula/firewall"
)

// C40 — multipath routing is deterministic and weight-proportional.

const c40MaxW = 1<<31 - 1

func c40Gateways(n int, maxW int) ([]Gateway, int) {
	gws := make([]Gateway, 0, 5)
	total := 0
	names := [5]string{"w0", "w1", "w2", "w3", "w4"}
	for i := 0; i < n; i++ {
		w := verifInt(names[i], 1, maxW) // the configuration parser's own range
		total += w
		gws = append(gws, NewGateway(netip.AddrFrom4([4]byte{10, 0, 0, byte(i + 1)}), w))
	}
	return gws, total
}

// VerifC40Buckets: full-width weights. Shares cover [0,2^31) without gaps or overlaps; every hash selects exactly one gateway.
func VerifC40Buckets() {
	n := verifCase("n")
	gws, total := c40Gateways(n, c40MaxW)
	// known finding: the 64-bit intermediate (loopWeight<<31) + total/2 wraps once the weight sum is about 2^33
	// (needs >= 5 gateways near the maximum weight)
	t := uint64(total)
	if verifKnown("C40-weight-sum-overflow", t >= 1<<33 || t<<31 > ^uint64(0)-t/2) {
		return
	}
	CalculateBucketsForGateways(gws)
	prev := -1
	for i := 0; i < n; i++ {
		b := gws[i].BucketUpperBound()
		verifAssert(b >= prev, "bucket bounds never decrease (no overlap, no negative share)")
		verifAssert(b >= -1 && b <= c40MaxW, "bucket bounds stay inside the hash space")
		prev = b
	}
	verifAssert(gws[n-1].BucketUpperBound() == c40MaxW, "last bound is 2^31-1: the shares cover the whole hash space")
	// a weight-1 gateway next to heavy ones may get an empty share only if its exact share is below 1/2 slot
	// every hash value selects exactly one gateway and the lookup reports success
	p := firewall.Packet{LocalPort: verifU16("lp"), RemotePort: verifU16("rp"), Protocol: verifU8("proto"), Fragment: verifBool("frag")}
	h := hashPacket(&p)
	verifAssert(h >= 0 && h <= c40MaxW, "hash is a non-negative 31-bit value")
	a, ok := BalancePacket(&p, gws)
	verifAssert(ok, "every hash falls into a bucket")
	// the selected gateway is the unique one whose half-open share contains the hash
	lo := -1
	found := 0
	for i := 0; i < n; i++ {
		hi := gws[i].BucketUpperBound()
		if h > lo && h <= hi {
			found++
			verifAssert(a == gws[i].Addr(), "selected gateway owns the share containing the hash")
		}
		lo = hi
	}
	verifAssert(found == 1, "shares partition the hash space: exactly one share contains the hash")
	// unrelated packet fields do not change the choice
	q := p
	q.Protocol = verifU8("proto2")
	q.Fragment = verifBool("frag2")
	q.LocalAddr = netip.AddrFrom4([4]byte{verifU8("a0"), 1, 2, 3})
	q.RemoteAddr = netip.AddrFrom4([4]byte{9, verifU8("a1"), 2, 3})
	a2, ok2 := BalancePacket(&q, gws)
	verifAssert(ok2 && a2 == a, "only the two ports influence the choice (same flow, same gateway)")
	verifObserve("hash", uint64(h))
	verifObserve("b0", uint64(gws[0].BucketUpperBound()))
}

// VerifC40Proportional: shares are proportional to the weights up to rounding.
// 64-bit products of two symbolic values do not close in the solver, so weights are limited to maxw here.
func VerifC40Proportional() {
	n := verifCase("n")
	maxW := verifCase("maxw")
	gws, total := c40Gateways(n, maxW)
	CalculateBucketsForGateways(gws)
	prefix := 0
	for i := 0; i < n; i++ {
		prefix += gws[i].weight
		// exact rational bound: prefix*2^31/total; the code rounds to nearest: |(b+1)*total - prefix*2^31| <= total/2
		lhs := uint64(gws[i].BucketUpperBound()+1) * uint64(total)
		rhs := uint64(prefix) << 31
		var diff uint64
		if lhs > rhs {
			diff = lhs - rhs
		} else {
			diff = rhs - lhs
		}
		verifAssert(2*diff <= uint64(total), "each cumulative bound is the weight-proportional point of the hash space rounded to nearest")
	}
	verifObserve("b0", uint64(gws[0].BucketUpperBound()))
}
