package nebula

import (
	"log/slog"
	"net/netip"

	"github.com/gaissmai/bart"
)

// C36 — unusable underlay addresses are never used.

var c36Log = slog.New(slog.DiscardHandler)

var c36Own = netip.MustParsePrefix("10.128.0.0/24") // the node's overlay network

func c36LH() *LightHouse {
	tbl := new(bart.Lite)
	tbl.Insert(c36Own)
	// global remote allow list: deny 192.168.0.0/16 (everything else allowed); for peers in 10.128.0.128/25 additionally deny 172.16.0.0/12
	global, err := newAllowList("remote_allow_list", map[string]any{"192.168.0.0/16": false}, nil)
	inside, err2 := newAllowList("remote_allow_ranges", map[string]any{"172.16.0.0/12": false}, nil)
	if err != nil || err2 != nil {
		verifAssume(false)
	}
	ranges := new(bart.Table[*AllowList])
	ranges.Insert(netip.MustParsePrefix("10.128.0.128/25"), inside)
	lh := &LightHouse{l: c36Log, myVpnNetworksTable: tbl, punchy: &Punchy{}, addrMap: map[netip.Addr]*RemoteList{}}
	lh.remoteAllowList.Store(&RemoteAllowList{AllowList: global, insideAllowLists: ranges})
	lhs := []netip.Addr{netip.AddrFrom4([4]byte{10, 128, 0, 1})}
	lh.lighthouses.Store(&lhs)
	return lh
}

// c36Usable: the statement's rule for an underlay address reported for peer `vpn`.
func c36Usable(vpn, udp netip.Addr) bool {
	if c36Own.Contains(udp) {
		return false // inside the node's own overlay network
	}
	if netip.MustParsePrefix("192.168.0.0/16").Contains(udp) {
		return false // denied globally
	}
	if netip.MustParsePrefix("10.128.0.128/25").Contains(vpn) && netip.MustParsePrefix("172.16.0.0/12").Contains(udp) {
		return false // denied for the peer's overlay range
	}
	return true
}

func c36Addr(name string) netip.Addr {
	b := verifBytes(name, 4)
	return netip.AddrFrom4([4]byte{b[0], b[1], b[2], b[3]})
}

// VerifC36Filters: the per-source filters and the ten-address cap.
func VerifC36Filters() {
	lh := c36LH()
	vpn := netip.AddrFrom4([4]byte{10, 128, 0, verifU8("peer_low")})
	u1, u2 := c36Addr("udp1"), c36Addr("udp2")
	p1 := &V4AddrPort{Addr: uint32(u1.As4()[0])<<24 | uint32(u1.As4()[1])<<16 | uint32(u1.As4()[2])<<8 | uint32(u1.As4()[3]), Port: 4242}
	p2 := &V4AddrPort{Addr: uint32(u2.As4()[0])<<24 | uint32(u2.As4()[1])<<16 | uint32(u2.As4()[2])<<8 | uint32(u2.As4()[3]), Port: 4243}
	verifAssert(lh.unlockedShouldAddV4(vpn, p1) == c36Usable(vpn, u1), "a reported IPv4 address is kept exactly when it is usable")
	verifAssert(lh.shouldAdd([]netip.Addr{vpn}, u1) == c36Usable(vpn, u1), "a resolved/static address is kept exactly when it is usable")
	m6 := u1.As16()
	var hi, lo uint64
	for i := 0; i < 8; i++ {
		hi, lo = hi<<8|uint64(m6[i]), lo<<8|uint64(m6[8+i])
	}
	verifAssert(lh.unlockedShouldAddV6(vpn, &V6AddrPort{Hi: hi, Lo: lo, Port: 1}) == c36Usable(vpn, u1), "an IPv4-mapped address reported in the IPv6 list is judged as the IPv4 address it is")

	// twelve addresses offered by one source: at most ten are kept, all of them usable
	filler := &V4AddrPort{Addr: 0x08080808, Port: 53}
	offered := []*V4AddrPort{p1, filler, filler, filler, filler, filler, filler, filler, filler, p2, filler, p2}
	r := NewRemoteList([]netip.Addr{vpn}, lh.shouldAdd)
	r.unlockedSetV4(netip.AddrFrom4([4]byte{10, 128, 0, 1}), vpn, offered, lh.unlockedShouldAddV4)
	rep := r.cache[netip.AddrFrom4([4]byte{10, 128, 0, 1})].v4.reported
	verifAssert(len(rep) <= MaxRemotes, "one source contributes at most ten addresses per peer")
	for i := 0; i < 12; i++ {
		if i < len(rep) {
			verifAssert(c36Usable(vpn, protoV4AddrPortToNetAddrPort(rep[i]).Addr()), "every kept address is usable")
		}
	}
	verifObserve("kept", uint64(len(rep)))
}

// punch targets recorded by the stub that replaces (*Punchy).Schedule
var c36Punched []netip.AddrPort

func c36Schedule(p *Punchy, target netip.AddrPort, vpnAddr netip.Addr) {
	c36Punched = append(c36Punched, target)
}

// VerifC36Punch: a punch notification from a lighthouse names an arbitrary address for an arbitrary peer.
func VerifC36Punch() {
	c36Punched = nil
	lh := c36LH()
	lhh := &LightHouseHandler{lh: lh, l: c36Log}
	udp := c36Addr("udp")
	a4 := udp.As4()
	vpnLow := verifU8("peer_low")
	vpn := netip.AddrFrom4([4]byte{10, 128, 0, vpnLow})
	n := &NebulaMeta{Type: NebulaMeta_HostPunchNotification, Details: &NebulaMetaDetails{
		OldVpnAddr:  uint32(10)<<24 | uint32(128)<<16 | uint32(vpnLow),
		V4AddrPorts: []*V4AddrPort{{Addr: uint32(a4[0])<<24 | uint32(a4[1])<<16 | uint32(a4[2])<<8 | uint32(a4[3]), Port: uint32(verifU16("port"))}}}}
	fromLighthouse := verifBool("from_lighthouse")
	from := []netip.Addr{netip.AddrFrom4([4]byte{10, 128, 0, 77})}
	if fromLighthouse {
		from = []netip.Addr{netip.AddrFrom4([4]byte{10, 128, 0, 1})}
	}
	if verifKnown("C36-punch-into-own-overlay-network", fromLighthouse && c36Own.Contains(udp)) { // fixed: the id is no longer open, so this excludes nothing
		return
	}
	lhh.handleHostPunchNotification(n, from, nil)
	if !fromLighthouse {
		verifAssert(len(c36Punched) == 0, "punch requests are honoured only from lighthouses")
	}
	for i := 0; i < 2; i++ {
		if i < len(c36Punched) {
			verifAssert(c36Usable(vpn, c36Punched[i].Addr()), "a punch is only ever sent to a usable underlay address")
		}
	}
	verifObserve("punched", uint64(len(c36Punched)))
}
