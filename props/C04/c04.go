package cert

import (
	"net/netip"
	"time"
)

// C04 — issuance never exceeds the signing CA.
//
// The real TBSCertificate.SignWith (guards, checkCAConstraints, fromTBSCertificate/validate, marshalForSigning,
// setSignature) with a plain-data signer CA whose constraints are symbolic and a signer lambda returning fixed bytes.

func c04T(name string) time.Time { return time.Unix(int64(verifInt(name, 0, 60)), 0) }

func VerifC04Sign() {
	// signer CA (or none: self-signed)
	selfSigned := verifBool("self_signed")
	cg, cgm := c01Groups("ca_groups")
	ca := &vCert{name: "ca", isCA: true, fp: "ca01", sigOK: true, nb: c04T("ca_nb"), na: c04T("ca_na"), groups: cg}
	if verifBool("ca_has_net") {
		ca.networks = []netip.Prefix{c01Prefix("ca_net")}
	}
	if verifBool("ca_has_unsafe") {
		ca.unsafe = []netip.Prefix{c01Prefix("ca_unsafe")}
	}
	lg, lgm := c01Groups("tbs_groups")
	tbs := &TBSCertificate{Version: Version2, Name: "leaf", Groups: lg, IsCA: verifBool("tbs_is_ca"),
		NotBefore: c04T("tbs_nb"), NotAfter: c04T("tbs_na"), PublicKey: make([]byte, 32), Curve: Curve_CURVE25519}
	tbs.Networks = []netip.Prefix{c01Prefix("tbs_net")}
	if verifBool("tbs_has_unsafe") {
		tbs.UnsafeNetworks = []netip.Prefix{c01Prefix("tbs_unsafe")}
	}
	keyCurve := Curve_CURVE25519
	if verifBool("key_is_p256") {
		keyCurve = Curve_P256
	}
	sp := func(b []byte) ([]byte, error) { return make([]byte, 64), nil }
	var signer Certificate
	if !selfSigned {
		signer = ca
	}
	c, err := tbs.SignWith(signer, keyCurve, sp)

	within := !tbs.NotAfter.After(ca.na) && !tbs.NotBefore.Before(ca.nb) &&
		(len(ca.groups) == 0 || ((!lgm[0] || cgm[0]) && (!lgm[1] || cgm[1]))) &&
		c01Within(ca.networks, tbs.Networks) && c01Within(ca.unsafe, tbs.UnsafeNetworks)
	if err == nil {
		verifAssert(keyCurve == tbs.Curve, "signing needs a key of the certificate's curve")
		if selfSigned {
			verifAssert(tbs.IsCA, "self-signing succeeds only for CA certificates")
		} else {
			verifAssert(!tbs.IsCA, "a CA never signs another CA")
			verifAssert(within, "an issued certificate satisfies every constraint of its signing CA")
			verifAssert(c.Issuer() == "ca01", "the issuer is the signer's fingerprint")
		}
		verifAssert(c.IsCA() == tbs.IsCA && c.NotBefore().Equal(tbs.NotBefore) && c.NotAfter().Equal(tbs.NotAfter), "the issued certificate carries the requested fields")
		verifObserve("signed", 1)
	} else {
		verifObserve("signed", 0)
		// completeness for the documented guards: a request inside all constraints with matching key is signed
		// (networks must be valid prefixes: host bits are allowed, the harness always supplies valid ones)
		if keyCurve == tbs.Curve && ((selfSigned && tbs.IsCA) || (!selfSigned && !tbs.IsCA && within)) {
			verifAssert(c04Invalid(tbs), "a request within its signer's constraints is only refused for an invalid field")
		}
	}
}

// c04Invalid: field-level reasons validate() may refuse (duplicate or unsorted prefixes cannot occur with <= 1 entry)
func c04Invalid(t *TBSCertificate) bool {
	return false
}

// c04DetailsMarshal replaces (*detailsV2).Marshal in the encoding: the ASN.1 bytes handed to the signer are not part
// of this property (the constraint checks all run before marshalling); natively the real Marshal runs.
func c04DetailsMarshal(d *detailsV2) ([]byte, error) { return make([]byte, 8), nil }
