package nebula

import (
	"log/slog"
	"net/netip"
	"sync"
	"time"

	"github.com/slackhq/nebula/cert"
)

// C30 — tunnel teardown decisions follow the liveness policy. C31 — at most one side swaps primaries.
//
// One traffic check (the real makeTrafficDecision with isInvalidCertificate/VerifyCachedCertificate, isInactive,
// shouldSwapPrimary) from an ARBITRARY tunnel state and configuration; the decision and the flag updates are
// compared with the decision table transcribed from the statement (DESIGN B.5).

var c30Log = slog.New(slog.DiscardHandler)

var c30Epoch = int64(1_000_000_000) * 1_000_000 // an arbitrary origin, in ns

func c30Time(name string) time.Time {
	return time.Unix(0, c30Epoch+int64(verifInt(name, 0, 1_000_000))*1_000_000) // ms granularity over ~17 min
}

type c30World struct {
	cm      *connectionManager
	h       *HostInfo
	primary *HostInfo
	pool    *cert.CAPool
	peer    *vCert
}

func c30Build(myAddr, peerAddr netip.Addr, peerValidUntil time.Time) *c30World {
	ca := &vCert{name: "ca", isCA: true, fp: "ca-fp", sigOK: true, nb: time.Unix(0, 0), na: time.Unix(4_000_000_000, 0)}
	pool := cert.NewCAPool()
	if pool.AddCA(ca) != nil {
		verifAssume(false)
	}
	peer := &vCert{name: "peer", issuer: "ca-fp", fp: "peer-fp", sigOK: true, nb: time.Unix(0, 0), na: peerValidUntil,
		networks: []netip.Prefix{netip.PrefixFrom(peerAddr, 16)}}
	cc, err := pool.VerifyCertificate(time.Unix(0, 1), peer) // verified at handshake time, long ago
	if err != nil {
		verifAssume(false)
	}
	mine := &vCert{name: "me", issuer: "ca-fp", fp: "my-fp", ver: cert.Version2}
	pki := &PKI{l: c30Log}
	pki.cs.Store(&CertState{v2Cert: mine})
	pki.caPool.Store(pool)
	intf := &Interface{pki: pki, l: c30Log, myVpnAddrs: []netip.Addr{myAddr}}
	hm := newHostMap(c30Log)
	cm := &connectionManager{hostMap: hm, intf: intf, punchy: &Punchy{}, l: c30Log,
		relayUsed: map[uint32]struct{}{}, relayUsedLock: &sync.RWMutex{},
		trafficTimer: NewLockingTimerWheel[uint32](time.Second, 8*time.Second), checkInterval: 5 * time.Second, pendingDeletionInterval: 10 * time.Second}
	h := &HostInfo{localIndexId: 7, remoteIndexId: 70, vpnAddrs: []netip.Addr{peerAddr},
		ConnectionState: &ConnectionState{peerCert: cc, myCert: mine}}
	hm.unlockedAddHostInfo(h, &Interface{})
	return &c30World{cm: cm, h: h, pool: pool, peer: peer}
}

func VerifC30Decision() {
	myAddr := netip.AddrFrom4([4]byte{10, 0, 0, verifU8("my_low")})
	peerAddr := netip.AddrFrom4([4]byte{10, 0, 0, verifU8("peer_low")})
	verifAssume(myAddr != peerAddr)
	validUntil := c30Time("peer_not_after")
	w := c30Build(myAddr, peerAddr, validUntil)
	cm, h := w.cm, w.h
	// a newer tunnel to the same peer may have taken over as primary
	isPrimary := verifBool("is_primary")
	if !isPrimary {
		p := &HostInfo{localIndexId: 8, remoteIndexId: 80, vpnAddrs: []netip.Addr{peerAddr}, ConnectionState: &ConnectionState{peerCert: h.ConnectionState.peerCert, myCert: h.ConnectionState.myCert}}
		cm.hostMap.unlockedAddHostInfo(p, &Interface{})
		w.primary = p
	}
	// arbitrary tunnel state and configuration
	in, out, pending := verifBool("in"), verifBool("out"), verifBool("pending")
	h.in.Store(in)
	h.out.Store(out)
	h.pendingDeletion.Store(pending)
	lastUsed := c30Time("last_used")
	h.lastUsed = lastUsed
	counter := verifU64("counter")
	h.ConnectionState.messageCounter.Store(counter)
	blocklisted := verifBool("blocklisted")
	if blocklisted {
		w.pool.BlocklistFingerprint("peer-fp")
	}
	disconnectInvalid := verifBool("disconnect_invalid")
	cm.intf.disconnectInvalid.Store(disconnectInvalid)
	dropInactive := verifBool("drop_inactive")
	cm.dropInactive.Store(dropInactive)
	timeout := time.Duration(verifInt("inactivity_timeout_ms", 0, 2_000_000)) * time.Millisecond
	cm.inactivityTimeout.Store(int64(timeout))
	now := c30Time("now")
	lookup := uint32(7)
	if verifBool("unknown_index") {
		lookup = 9
	}

	dec, hi, _ := cm.makeTrafficDecision(lookup, now)

	// ---- decision table (B.5) ----
	if lookup != 7 {
		verifAssert(dec == doNothing && hi == nil, "no tunnel, nothing to do")
		return
	}
	expired := now.After(validUntil)
	switch {
	case blocklisted:
		verifAssert(dec == closeTunnel, "a blocklisted peer certificate closes the tunnel regardless of configuration")
	case expired && disconnectInvalid:
		verifAssert(dec == closeTunnel, "an invalid peer certificate closes the tunnel when disconnect_invalid is set")
	case counter >= RejectAfterMessages:
		verifAssert(dec == deleteTunnel, "an exhausted message counter drops the tunnel locally")
	case in:
		verifAssert(dec != deleteTunnel && dec != closeTunnel, "a tunnel that received traffic since the last check is never torn down for liveness reasons")
		verifAssert(!h.pendingDeletion.Load(), "inbound traffic clears the pending-deletion mark")
		if isPrimary {
			verifAssert(dec == tryRehandshake, "a live primary tunnel is evaluated for re-handshake")
		} else {
			verifAssert(dec == swapPrimary || dec == migrateRelays, "a live non-primary tunnel is swapped in or has its relays migrated")
		}
	case pending:
		verifAssert(dec == deleteTunnel, "no traffic since it was marked pending: the tunnel is deleted")
	case isPrimary && !out:
		inactive := dropInactive && now.Sub(lastUsed) >= timeout
		if inactive {
			verifAssert(dec == closeTunnel, "an unused primary tunnel past the inactivity timeout is closed when drop_inactive is set")
		} else {
			verifAssert(dec == doNothing && !h.pendingDeletion.Load(), "an unused primary tunnel is left alone and not marked pending")
		}
	case isPrimary:
		verifAssert(dec == sendTestPacket && h.pendingDeletion.Load(), "outbound-only traffic: probe the tunnel and mark it pending")
	default:
		verifAssert(dec == doNothing && h.pendingDeletion.Load(), "a silent non-primary tunnel is marked pending")
	}
	if dec == closeTunnel || dec == deleteTunnel {
		verifAssert(hi == h, "teardown decisions name the checked tunnel")
	}
	verifAssert(!h.in.Load() && !h.out.Load() || blocklisted || (expired && disconnectInvalid) || counter >= RejectAfterMessages, "the traffic marks are consumed by the check")
	verifObserve("decision", uint64(dec))
}

// VerifC31Antisymmetric: when two nodes hold a non-primary tunnel to each other, at most one of them decides to swap.
func VerifC31Antisymmetric() {
	ax := netip.AddrFrom4([4]byte{10, 0, verifU8("x_hi"), verifU8("x_lo")})
	ay := netip.AddrFrom4([4]byte{10, 0, verifU8("y_hi"), verifU8("y_lo")})
	verifAssume(ax != ay) // two different nodes
	far := time.Unix(0, c30Epoch*3)
	x := c30Build(ax, ay, far) // node X looking at its tunnel to Y
	y := c30Build(ay, ax, far) // node Y looking at its tunnel to X
	x.h.ConnectionState.messageCounter.Store(verifU64("x_counter"))
	y.h.ConnectionState.messageCounter.Store(verifU64("y_counter"))
	if verifBool("x_cert_reloaded") {
		x.cm.intf.pki.cs.Store(&CertState{})
	}
	if verifBool("y_cert_reloaded") {
		y.cm.intf.pki.cs.Store(&CertState{})
	}
	sx := x.cm.shouldSwapPrimary(x.h)
	sy := y.cm.shouldSwapPrimary(y.h)
	verifAssert(!(sx && sy), "at most one of the two nodes decides to swap its primary tunnel")
	var o uint64
	if sx {
		o |= 1
	}
	if sy {
		o |= 2
	}
	verifObserve("swaps", o)
}

// VerifC31SwapSurvives: a non-primary tunnel that proves alive (inbound traffic) while marked for deletion, and is
// then swapped in as primary where the decision says so, is not dropped at its next quiet check: it is probed first.
func VerifC31SwapSurvives() {
	myAddr := netip.AddrFrom4([4]byte{10, 0, 0, verifU8("my_low")})
	peerAddr := netip.AddrFrom4([4]byte{10, 0, 0, verifU8("peer_low")})
	verifAssume(myAddr != peerAddr)
	far := time.Unix(0, c30Epoch*3)
	w := c30Build(myAddr, peerAddr, far)
	cm, h := w.cm, w.h
	p := &HostInfo{localIndexId: 8, remoteIndexId: 80, vpnAddrs: []netip.Addr{peerAddr}, ConnectionState: &ConnectionState{peerCert: h.ConnectionState.peerCert, myCert: h.ConnectionState.myCert}}
	cm.hostMap.unlockedAddHostInfo(p, &Interface{}) // p is primary, h is the other tunnel of a simultaneous handshake
	h.pendingDeletion.Store(verifBool("was_pending"))
	h.in.Store(true) // the peer sends on h before the deletion re-check
	h.out.Store(verifBool("out1"))
	now := c30Time("now")
	dec, _, _ := cm.makeTrafficDecision(7, now)
	verifAssert(dec == swapPrimary || dec == migrateRelays, "a live non-primary tunnel is swapped in or has its relays migrated")
	if dec == swapPrimary {
		cm.hostMap.MakePrimary(h)
	}
	// next interval: we sent, the peer stayed quiet
	h.out.Store(true)
	dec2, _, _ := cm.makeTrafficDecision(7, now.Add(time.Second))
	verifAssert(dec2 != deleteTunnel && dec2 != closeTunnel, "a tunnel that proved alive is probed before it is dropped")
	if dec == swapPrimary {
		verifAssert(dec2 == sendTestPacket, "the swapped-in primary is probed after one quiet interval")
	}
	verifObserve("decision", uint64(dec)<<8|uint64(dec2))
}
