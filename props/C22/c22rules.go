package nebula

import (
	"log/slog"

	"github.com/slackhq/nebula/config"
)

// C22 (rule list half) — a rule list loads only if every rule names a known protocol, a valid port and at least one
// selector; the loaded rule carries what the configuration says.
//
// The real AddFirewallRulesFromConfig / convertRule on a one-rule list whose fields are present or absent
// independently; `groups` takes every YAML shape (absent, empty list, one-element list, two-element list, plain
// string), `group` may be a string or a one-element list.

var c22Log = slog.New(slog.DiscardHandler)

type c22Added struct {
	incoming           bool
	proto              uint8
	start, end         int32
	groups             []string
	host, cidr, lcidr  string
	caName, caSha      string
}

type c22Recorder struct{ rules []c22Added }

func (r *c22Recorder) AddRule(incoming bool, proto uint8, startPort int32, endPort int32, groups []string, host string, cidr, localCidr string, caName string, caSha string) error {
	r.rules = append(r.rules, c22Added{incoming, proto, startPort, endPort, groups, host, cidr, localCidr, caName, caSha})
	return nil
}

func VerifC22Rule() {
	m := map[string]any{"port": "80"}
	protoKnown := verifBool("proto_known")
	if protoKnown {
		m["proto"] = "tcp"
	} else {
		m["proto"] = "sctp"
	}
	hasHost, hasCidr, hasLocal, hasCAName, hasCASha := verifBool("has_host"), verifBool("has_cidr"), verifBool("has_local_cidr"), verifBool("has_ca_name"), verifBool("has_ca_sha")
	if hasHost {
		m["host"] = "web1"
	}
	if hasCidr {
		m["cidr"] = "10.0.0.0/8"
	}
	if hasLocal {
		m["local_cidr"] = "10.1.0.0/16"
	}
	if hasCAName {
		m["ca_name"] = "corp"
	}
	if hasCASha {
		m["ca_sha"] = "abcd"
	}
	nGroups := 0
	switch verifCase("groups_shape") {
	case 1:
		m["groups"] = []any{} // `groups: []`
	case 2:
		m["groups"] = []any{"ops"}
		nGroups = 1
	case 3:
		m["groups"] = []any{"ops", "dev"}
		nGroups = 2
	case 4:
		m["groups"] = "ops"
		nGroups = 1
	}
	hasGroup := false
	switch verifCase("group_shape") {
	case 1:
		m["group"] = "admins"
		hasGroup = true
	case 2:
		m["group"] = []any{"admins"}
		hasGroup = true
	}
	c := config.NewC(c22Log)
	c.Settings["firewall"] = map[string]any{"inbound": []any{m}}
	rec := &c22Recorder{}
	err := AddFirewallRulesFromConfig(c22Log, true, c, rec)

	both := hasGroup && nGroups > 0
	selector := hasHost || hasCidr || hasLocal || hasCAName || hasCASha || hasGroup || nGroups > 0
	ok := protoKnown && selector && !both
	verifAssert((err == nil) == ok, "the rule loads exactly when it names a known protocol, at least one selector, and not both group and groups")
	if err == nil {
		verifAssert(len(rec.rules) == 1, "one configured rule yields one firewall rule")
		r := rec.rules[0]
		verifAssert(r.incoming && r.proto == 6 && r.start == 80 && r.end == 80, "protocol and port as configured")
		wantGroups := nGroups
		if hasGroup {
			wantGroups = 1
		}
		verifAssert(len(r.groups) == wantGroups, "exactly the configured groups")
		verifAssert((r.host != "") == hasHost && (r.cidr != "") == hasCidr && (r.lcidr != "") == hasLocal && (r.caName != "") == hasCAName && (r.caSha != "") == hasCASha, "exactly the configured selectors")
	} else {
		verifAssert(len(rec.rules) == 0, "a refused list adds no rule")
	}
	var o uint64
	if err == nil {
		o = 1
	}
	verifObserve("loaded", o)
}
