package nebula

// C22 — firewall configuration parses exactly (port text kernel).

func c22Digits(s string) (v int, ok bool) {
	if len(s) == 0 {
		return 0, false
	}
	for i := 0; i < len(s); i++ {
		c := s[i]
		if c < '0' || c > '9' {
			return 0, false
		}
		v = v*10 + int(c-'0')
		if v > 65535 {
			return 0, false
		}
	}
	return v, true
}

func c22TrimSpaces(s string) string {
	for len(s) > 0 && s[0] == ' ' {
		s = s[1:]
	}
	for len(s) > 0 && s[len(s)-1] == ' ' {
		s = s[:len(s)-1]
	}
	return s
}

// c22Oracle: the documented port grammar — any | fragment | D | D-D with D a decimal in 0..65535.
func c22Oracle(s string) (lo, hi int, ok bool) {
	if s == "any" {
		return 0, 0, true
	}
	if s == "fragment" {
		return -1, -1, true
	}
	dash := -1
	for i := 0; i < len(s); i++ {
		if s[i] == '-' {
			dash = i
			break
		}
	}
	if dash < 0 {
		v, ok := c22Digits(s)
		return v, v, ok
	}
	a, ok1 := c22Digits(c22TrimSpaces(s[:dash]))
	b, ok2 := c22Digits(c22TrimSpaces(s[dash+1:]))
	if !ok1 || !ok2 {
		return 0, 0, false
	}
	if a == 0 { // a range starting at 0 is `any`
		b = 0
	}
	return a, b, true
}

func VerifC22Port() {
	maxLen := verifCase("maxlen")
	s := verifString("port", maxLen)
	lo, hi, err := parsePort(s)
	wlo, whi, wok := c22Oracle(s)
	verifAssert((err == nil) == wok, "port text is accepted exactly when it is any, fragment, a decimal 0..65535 or a range of two such decimals")
	if err == nil {
		verifAssert(int(lo) == wlo && int(hi) == whi, "accepted port text means exactly the stated value or range")
		verifObserve("lo", uint64(uint32(lo)))
		verifObserve("hi", uint64(uint32(hi)))
	} else {
		verifObserve("rejected", 1)
	}
}

// VerifC22Literals: the two keywords (longer than the symbolic bound above).
func VerifC22Literals() {
	lo, hi, err := parsePort("fragment")
	verifAssert(err == nil && lo == -1 && hi == -1, "fragment")
	lo, hi, err = parsePort("any")
	verifAssert(err == nil && lo == 0 && hi == 0, "any")
	lo, hi, err = parsePort("0-65535")
	verifAssert(err == nil && lo == 0 && hi == 0, "a range starting at 0 is any")
	_, _, err = parsePort("65536")
	verifAssert(err != nil, "65536 is out of range")
	_, _, err = parsePort("1-65536")
	verifAssert(err != nil, "range end out of range")
	lo, hi, err = parsePort("100 - 200")
	verifAssert(err == nil && lo == 100 && hi == 200, "spaces around range parts are trimmed")
}
