package nebula

import (
	"log/slog"
	"net/netip"
	"time"

	"github.com/gaissmai/bart"
	"github.com/rcrowley/go-metrics"
	"github.com/slackhq/nebula/cert"
	"github.com/slackhq/nebula/handshake"
	"github.com/slackhq/nebula/header"
)

// C09 — tunnels are bound to the certified overlay address (and C32: queued packets are released correctly).
//
// validatePeerCert (responder side) and continueHandshake (initiator side, final message) of the real
// HandshakeManager. The Noise machine is replaced by a stub that reports a completed handshake with an ARBITRARY
// verified peer certificate (1..2 networks drawn from a menu that contains our own address, the intended peer
// and strangers); key material is not needed after that point.

var c09Log = slog.New(slog.DiscardHandler)

var (
	c09Me    = netip.AddrFrom4([4]byte{10, 0, 0, 1})
	c09Peer  = netip.AddrFrom4([4]byte{10, 0, 0, 2}) // whom the initiator wants
	c09Peer2 = netip.AddrFrom4([4]byte{10, 9, 0, 2}) // second address of the same peer, outside our networks
	c09Other = netip.AddrFrom4([4]byte{10, 0, 0, 3})
)

var c09Menu = [...]netip.Addr{c09Me, c09Peer, c09Peer2, c09Other}

func c09Cert() (*cert.CachedCertificate, []netip.Addr) {
	n := verifInt("cert_networks", 1, 2)
	a0 := c09Menu[verifInt("cert_addr0", 0, 3)]
	a1 := c09Menu[verifInt("cert_addr1", 0, 3)]
	nets := []netip.Prefix{netip.PrefixFrom(a0, 24)}
	addrs := []netip.Addr{a0}
	if n == 2 {
		verifAssume(a1 != a0)
		nets = append(nets, netip.PrefixFrom(a1, 24))
		addrs = append(addrs, a1)
	}
	return vCached(&vCert{name: "peer", ver: cert.Version2, networks: nets, fp: "fp"}), addrs
}

func c09Interface() *Interface {
	mine := new(bart.Lite)
	mine.Insert(netip.PrefixFrom(c09Me, 32))
	nets := new(bart.Lite)
	nets.Insert(netip.MustParsePrefix("10.0.0.0/24"))
	lh := &LightHouse{l: c09Log, addrMap: map[netip.Addr]*RemoteList{}}
	lh.remoteAllowList.Store(&RemoteAllowList{})
	lhs := []netip.Addr{}
	lh.lighthouses.Store(&lhs)
	return &Interface{l: c09Log, myVpnAddrsTable: mine, myVpnNetworksTable: nets, lightHouse: lh, hostMap: newHostMap(c09Log),
		cachedPacketMetrics: &cachedPacketMetrics{sent: metrics.NilCounter{}, dropped: metrics.NilCounter{}}, messageMetrics: &MessageMetrics{}, metricHandshakes: metrics.NilHistogram{}}
}

func c09Has(l []netip.Addr, a netip.Addr) bool {
	for _, x := range l {
		if x == a {
			return true
		}
	}
	return false
}

// VerifC09Validate: the responder's check of a verified peer certificate.
func VerifC09Validate() {
	f := c09Interface()
	hm := &HandshakeManager{l: c09Log, f: f, mainHostMap: f.hostMap}
	cc, addrs := c09Cert()
	via := ViaSender{UdpAddr: netip.AddrPortFrom(netip.AddrFrom4([4]byte{192, 0, 2, 9}), 4242), IsRelayed: verifBool("relayed")}
	got, common, ok := hm.validatePeerCert(via, cc)
	self := c09Has(addrs, c09Me)
	verifAssert(ok == !self, "a peer certificate is accepted exactly when it does not list one of our own addresses")
	if ok {
		verifAssert(len(got) == len(addrs), "the recorded peer addresses are exactly the certificate's addresses")
		for i := 0; i < 2; i++ {
			if i < len(got) {
				verifAssert(got[i] == addrs[i], "the recorded peer addresses are exactly the certificate's addresses, in order")
			}
		}
		verifAssert(common == (c09Has(addrs, c09Peer) || c09Has(addrs, c09Other)), "networks in common are reported exactly when an address lies in our networks")
	}
	var o uint64
	if ok {
		o = 1
	}
	verifObserve("ok", o)
}

// ---- initiator side ----

var c09Result *handshake.Result

func c09Process(m *handshake.Machine, out, packet []byte) ([]byte, *handshake.Result, error) {
	return nil, c09Result, nil
}

func c09ConnState(r *handshake.Result) (*ConnectionState, error) {
	return &ConnectionState{peerCert: r.RemoteCert, initiator: r.Initiator}, nil
}

var c09Restarted []netip.Addr

func c09StartHandshake(hm *HandshakeManager, vpnAddr netip.Addr, cacheCb func(*HandshakeHostInfo)) *HostInfo {
	c09Restarted = append(c09Restarted, vpnAddr)
	return nil
}

var c09Released []int

// c09Late models a packet queued by another goroutine while the completion is in progress: packets may be queued for
// the pending handshake (under the manager's lock) for as long as it is in the pending table, i.e. until Complete.
// The hook replaces HostInfo.buildNetworks, the last call before Complete (its result plays no role in this unit).
var c09HH *HandshakeHostInfo
var c09Late bool

func c09BuildNetworks(h *HostInfo, nets *bart.Lite, c cert.Certificate) {
	if c09Late && c09HH != nil {
		c09HH.cachePacket(c09Log, header.Message, 0, []byte{9}, c09Callback(99), &cachedPacketMetrics{sent: metrics.NilCounter{}, dropped: metrics.NilCounter{}})
	}
}

func c09Callback(id int) packetCallback {
	return func(t header.MessageType, st header.MessageSubType, h *HostInfo, p, nb, out []byte) {
		c09Released = append(c09Released, id)
	}
}

// VerifC09Initiator: the initiator receives the final handshake message for its pending handshake to c09Peer.
func VerifC09Initiator() {
	c09Restarted, c09Released = nil, nil
	f := c09Interface()
	hm := &HandshakeManager{l: c09Log, f: f, mainHostMap: f.hostMap, vpnIps: map[netip.Addr]*HandshakeHostInfo{}, indexes: map[uint32]*HandshakeHostInfo{}}
	hi := &HostInfo{localIndexId: 7, vpnAddrs: []netip.Addr{c09Peer}, remotes: NewRemoteList([]netip.Addr{c09Peer}, nil), HandshakePacket: map[uint8][]byte{}}
	hh := &HandshakeHostInfo{hostinfo: hi, machine: &handshake.Machine{}, startTime: time.Now()}
	hm.vpnIps[c09Peer] = hh
	hm.indexes[7] = hh
	queued := verifInt("queued_packets", 0, 3)
	for i := 0; i < 3; i++ {
		if i < queued {
			hh.packetStore = append(hh.packetStore, &cachedPacket{header.Message, 0, c09Callback(i), []byte{byte(i)}})
		}
	}
	c09HH, c09Late = hh, verifBool("packet_queued_during_completion")
	cc, addrs := c09Cert()
	c09Result = &handshake.Result{RemoteCert: cc, RemoteIndex: verifU32("remote_index"), LocalIndex: 7, HandshakeTime: verifU64("time"), Initiator: true}
	via := ViaSender{UdpAddr: netip.AddrPortFrom(netip.AddrFrom4([4]byte{192, 0, 2, 9}), 4242)}
	hm.continueHandshake(via, hh, make([]byte, 32))

	installed := f.hostMap.Indexes[7] == hi
	self := c09Has(addrs, c09Me)
	right := c09Has(addrs, c09Peer)
	verifAssert(installed == (!self && right), "the tunnel is installed exactly when the verified certificate lists the address we wanted and none of our own")
	_, pending := hm.indexes[7]
	verifAssert(!pending, "the pending handshake state is removed either way")
	if installed {
		verifAssert(len(hi.vpnAddrs) == len(addrs), "the tunnel's peer addresses are exactly the certificate's addresses")
		for i := 0; i < 2; i++ {
			if i < len(addrs) {
				verifAssert(i < len(hi.vpnAddrs) && hi.vpnAddrs[i] == addrs[i] && f.hostMap.Hosts[addrs[i]] == hi, "every certified address, and only those, leads to this tunnel")
			}
		}
		for _, a := range c09Menu {
			if !c09Has(addrs, a) {
				_, has := f.hostMap.Hosts[a]
				verifAssert(!has, "no address outside the certificate leads to a tunnel")
			}
		}
		verifAssert(hi.remoteIndexId == c09Result.RemoteIndex && hi.ConnectionState != nil && hi.ConnectionState.peerCert == cc, "the tunnel carries the handshake's index and verified certificate")
		// C32: queued packets are released exactly once each, in order
		want := queued
		if c09Late {
			want++
		}
		verifAssert(len(c09Released) == want, "every queued packet is sent exactly once when the handshake completes, including one queued while the completion was in progress")
		for i := 0; i < 4; i++ {
			if i < len(c09Released) {
				if i < queued {
					verifAssert(c09Released[i] == i, "queued packets are sent in order")
				} else {
					verifAssert(c09Released[i] == 99, "the late packet is sent last")
				}
			}
		}
	} else {
		verifAssert(len(f.hostMap.Hosts) == 0 && len(f.hostMap.Indexes) == 0, "nothing is installed when a different host answers or the certificate lists our own address")
		verifAssert(len(c09Released) == 0, "queued packets are not sent to a host that was not installed")
		if !self {
			verifAssert(len(c09Restarted) == 1 && c09Restarted[0] == c09Peer, "when a different host answers, the handshake to the intended address is started again")
		}
	}
	var o uint64
	if installed {
		o = 1
	}
	verifObserve("installed", o)
}
