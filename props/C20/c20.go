package nebula

import (
	"github.com/slackhq/nebula/firewall"
)

// C20 — packet classification matches what the host will process.
//
// Reference parser written from RFC 791 / RFC 8200 and the property statement (DESIGN B.6): no iteration cap
// on the IPv6 extension-header walk (the packet length bounds it: every extension header is >= 8 bytes).

type c20Ref struct {
	ok                 bool // the packet can be resolved
	v6                 bool
	src, dst           [16]byte // first 4 bytes used for IPv4
	proto              uint8
	fragment           bool // non-first fragment
	fragAny            bool
	hdrLen             int
	srcPort, dstPort   uint16 // TCP/UDP; for ICMP echo: srcPort = identifier
	hasPorts, icmpEcho bool
	nExt               int // IPv6: extension headers seen (including a terminating non-first fragment header)
}

func c20IsExt(p uint8) bool { return p == 0 || p == 43 || p == 60 || p == 44 || p == 51 }

func c20Parse(d []byte) (r c20Ref) {
	if len(d) < 1 {
		return
	}
	switch d[0] >> 4 {
	case 4:
		if len(d) < 20 {
			return
		}
		ihl := int(d[0]&15) * 4
		if ihl < 20 || len(d) < ihl {
			return
		}
		ff := uint16(d[6])<<8 | uint16(d[7])
		r.fragment = ff&0x1fff != 0
		r.fragAny = ff&0x3fff != 0
		r.proto = d[9]
		r.hdrLen = ihl
		copy(r.src[:4], d[12:16])
		copy(r.dst[:4], d[16:20])
		if !r.fragment {
			if r.proto == 1 {
				if len(d) < ihl+6 {
					return
				}
				r.icmpEcho = true
				r.srcPort = uint16(d[ihl+4])<<8 | uint16(d[ihl+5])
			} else {
				if len(d) < ihl+4 {
					return
				}
				r.hasPorts = true
				r.srcPort = uint16(d[ihl])<<8 | uint16(d[ihl+1])
				r.dstPort = uint16(d[ihl+2])<<8 | uint16(d[ihl+3])
			}
		}
		r.ok = true
		return
	case 6:
		if len(d) < 40 {
			return
		}
		r.v6 = true
		copy(r.src[:], d[8:24])
		copy(r.dst[:], d[24:40])
		nh := d[6]
		off := 40
		for k := 0; k < 13; k++ { // (128-40)/8 = 11 headers at most fit; 13 leaves slack for the unwinding check
			if !c20IsExt(nh) {
				break
			}
			r.nExt++
			if nh == 44 {
				if len(d) < off+8 {
					return
				}
				r.fragAny = true
				if d[off+2] != 0 || d[off+3]&0xf8 != 0 {
					r.fragment = true
					r.proto = d[off]
					r.hdrLen = off
					r.ok = true
					return
				}
				nh = d[off]
				off += 8
				continue
			}
			if len(d) < off+2 {
				return
			}
			n := d[off]
			if nh == 51 {
				off += (int(d[off+1]) + 2) * 4
			} else {
				off += (int(d[off+1]) + 1) * 8
			}
			nh = n
		}
		if c20IsExt(nh) || off > len(d) {
			return // chain not resolved inside the packet
		}
		r.proto = nh
		r.hdrLen = off
		switch nh {
		case 58:
			if len(d) < off+4 {
				return
			}
			if d[off] == 128 || d[off] == 129 {
				if len(d) < off+6 {
					return
				}
				r.icmpEcho = true
				r.srcPort = uint16(d[off+4])<<8 | uint16(d[off+5])
			}
		case 6, 17:
			if len(d) < off+4 {
				return
			}
			r.hasPorts = true
			r.srcPort = uint16(d[off])<<8 | uint16(d[off+1])
			r.dstPort = uint16(d[off+2])<<8 | uint16(d[off+3])
		}
		r.ok = true
	}
	return
}

// c20After8: the IPv6 chain has at least 8 complete extension headers and what follows them is either another
// extension header or lies beyond the packet (the region of the recorded finding C20-ext-chain>8).
func c20After8(d []byte) bool {
	if len(d) < 40 || d[0]>>4 != 6 {
		return false
	}
	nh, off := d[6], 40
	for k := 0; k < 8; k++ {
		if !c20IsExt(nh) || len(d) < off+2 {
			return false
		}
		if nh == 44 {
			if len(d) < off+8 || d[off+2] != 0 || d[off+3]&0xf8 != 0 {
				return false
			}
			nh = d[off]
			off += 8
			continue
		}
		n := d[off]
		if nh == 51 {
			off += (int(d[off+1]) + 2) * 4
		} else {
			off += (int(d[off+1]) + 1) * 8
		}
		nh = n
	}
	return c20IsExt(nh) || off > len(d)
}

func VerifC20Parse() {
	const maxLen = 128
	n := verifInt("len", 0, maxLen)
	data := verifBytes("pkt", maxLen)[:n]
	incoming := verifBool("incoming")
	ver := verifCase("version") // 4, 6, or 0 = anything else
	if ver == 0 {
		verifAssume(n == 0 || (data[0]>>4 != 4 && data[0]>>4 != 6))
	} else {
		verifAssume(n > 0 && int(data[0]>>4) == ver)
	}
	// known finding: after 8 walked extension headers the walker returns the 9th header type as the protocol
	if verifKnown("C20-ext-chain>8", c20After8(data)) {
		return
	}
	fp := firewall.ParsedPacket{}
	fp.IPHdrLen = 77 // stale values from a previous packet must not survive
	fp.FragAny = true
	err := newPacket(data, incoming, &fp)
	ref := c20Parse(data)
	if err != nil {
		// nebula documents a cap of 8 walked extension headers; longer chains fail closed (rejecting is always allowed)
		verifAssert(!ref.ok || ref.nExt > 8, "a packet the reference parser resolves completely (<= 8 extension headers) is not rejected")
		verifAssert(fp.IPHdrLen == 0 || ver != 0, "rejected non-IP input leaves no stale header length")
		verifObserve("accepted", 0)
		return
	}
	verifObserve("accepted", 1)
	verifAssert(ref.ok, "accepted packet is resolvable by the reference parser")
	verifAssert(fp.Protocol == ref.proto, "protocol equals the reference upper-layer protocol")
	verifAssert(!ref.v6 || ref.fragment || !c20IsExt(fp.Protocol), "IPv6 protocol is never an extension header")
	verifAssert(fp.Fragment == ref.fragment, "non-first-fragment status")
	verifAssert(fp.FragAny == ref.fragAny, "any-fragment status")
	verifAssert(fp.IPHdrLen == ref.hdrLen, "header length / transport offset")
	verifAssert(fp.IPHdrLen <= n, "transport offset inside the packet")
	src, dst := fp.RemoteAddr, fp.LocalAddr
	if !incoming {
		src, dst = fp.LocalAddr, fp.RemoteAddr
	}
	if ref.v6 {
		verifAssert(src.Is6() && dst.Is6(), "IPv6 addresses reported as IPv6")
		verifAssert(src.As16() == ref.src && dst.As16() == ref.dst, "IPv6 addresses oriented for the direction")
	} else {
		verifAssert(src.Is4() && dst.Is4(), "IPv4 addresses reported as IPv4")
		s4, d4 := src.As4(), dst.As4()
		verifAssert(s4[0] == ref.src[0] && s4[1] == ref.src[1] && s4[2] == ref.src[2] && s4[3] == ref.src[3], "IPv4 source address")
		verifAssert(d4[0] == ref.dst[0] && d4[1] == ref.dst[1] && d4[2] == ref.dst[2] && d4[3] == ref.dst[3], "IPv4 destination address")
	}
	switch {
	case ref.fragment:
		verifAssert(fp.RemotePort == 0 && fp.LocalPort == 0, "non-first fragments carry no ports")
	case ref.icmpEcho:
		verifAssert(fp.RemotePort == ref.srcPort && fp.LocalPort == 0, "ICMP identifier in the remote port, local port zero")
	case ref.hasPorts:
		sp, dp := fp.RemotePort, fp.LocalPort
		if !incoming {
			sp, dp = fp.LocalPort, fp.RemotePort
		}
		verifAssert(sp == ref.srcPort && dp == ref.dstPort, "ports oriented for the direction")
	default:
		if ref.v6 {
			verifAssert(fp.RemotePort == 0 && fp.LocalPort == 0, "no ports for protocols that are not inspected")
		}
	}
	verifObserve("proto", uint64(fp.Protocol))
	verifObserve("hdrlen", uint64(fp.IPHdrLen))
	verifObserve("rport", uint64(fp.RemotePort))
}
