package nebula

import (
	"log/slog"

	"github.com/rcrowley/go-metrics"
)

// C12 — a data packet is delivered at most once.
//
// The real ConnectionState.Decrypt / VerifyRelay run on an ARBITRARY replay window state (C11's invariant) with a
// scripted AEAD. Sequential claims decided here: success needs the AEAD's acceptance AND a fresh counter; a failed
// AEAD leaves the window untouched; a second arrival of an accepted counter (direct or relayed, whatever the AEAD
// says) is refused. The concurrent case reduces to these plus C11: Check and Update each run inside the
// decryptLock critical section, and Update (C11) accepts a counter at most once, so of two racing copies that
// both passed Check only one passes Update.

var c12Log = slog.New(slog.DiscardHandler)

func c12State(n uint64) (*ConnectionState, *vCipher) {
	nw := int(n / 64)
	b := &Bits{length: n, lengthMask: n - 1, current: verifU64("cur"), bits: verifWords("bits", nw),
		lostCounter: metrics.NilCounter{}, dupeCounter: metrics.NilCounter{}, outOfWindowCounter: metrics.NilCounter{}}
	verifAssume(b.get(b.current))
	verifAssume(b.current < 1<<63) // far from the counter ceiling (C11 records the behaviour near 2^64)
	vc := &vCipher{okScript: []bool{verifBool("aead1"), verifBool("aead2"), verifBool("aead3")}}
	return &ConnectionState{window: b, dKey: vc}, vc
}

func VerifC12Decrypt() {
	const n = 64
	cs, vc := c12State(n)
	ctr := verifU64("counter")
	verifAssume(ctr < 1<<63)
	relayed1, relayed2 := verifBool("first_relayed"), verifBool("second_relayed")
	pkt := verifBytes("packet", 40)
	j := verifU64("j") // Skolem counter for "window unchanged"
	seenJ := cs.window.Check(c12Log, j)
	cur0 := cs.window.current
	fresh := cs.window.Check(c12Log, ctr)

	var err1 error
	if relayed1 {
		err1 = cs.VerifyRelay(c12Log, ctr, pkt, make([]byte, 12))
	} else {
		_, err1 = cs.Decrypt(c12Log, ctr, pkt, make([]byte, 12))
	}
	verifAssert((err1 == nil) == (fresh && vc.okScript[0]), "a packet is acted upon exactly when its counter is fresh and the AEAD accepts it")
	if !fresh {
		verifAssert(len(vc.decN) == 0, "a replayed counter is refused before any decryption work")
	} else {
		verifAssert(len(vc.decN) == 1 && vc.decN[0] == ctr, "the AEAD is keyed with the packet's counter")
	}
	if err1 != nil {
		verifAssert(cs.window.current == cur0 && cs.window.Check(c12Log, j) == seenJ, "a refused packet leaves the replay window unchanged")
	}
	// the same counter arrives again (directly or through a relay), whatever the AEAD would say
	var err2 error
	if relayed2 {
		err2 = cs.VerifyRelay(c12Log, ctr, pkt, make([]byte, 12))
	} else {
		_, err2 = cs.Decrypt(c12Log, ctr, pkt, make([]byte, 12))
	}
	verifAssert(!(err1 == nil && err2 == nil), "the same counter is never acted upon twice")
	if err1 == nil {
		verifAssert(err2 == ErrAlreadySeen, "the replayed copy is reported as already seen")
	}
	var o uint64
	if err1 == nil {
		o = 1
	}
	verifObserve("first_ok", o)
}

// VerifC12Race: two copies of one counter both pass the pre-check (the unlocked gap between Check and Update in two
// goroutines); whatever order the two Updates run in, exactly one wins.
func VerifC12Race() {
	const n = 64
	cs, _ := c12State(n)
	ctr := verifU64("counter")
	verifAssume(ctr < 1<<63)
	c1 := cs.window.Check(c12Log, ctr)
	c2 := cs.window.Check(c12Log, ctr)
	verifAssert(c1 == c2, "the pre-check is repeatable")
	u1 := cs.window.Update(c12Log, ctr)
	u2 := cs.window.Update(c12Log, ctr)
	verifAssert(!(u1 && u2), "of two racing copies at most one passes the final window update")
	verifAssert(u1 == c1, "the first update agrees with the pre-check")
}

// VerifC12Interleaved: while one goroutine is between its pre-check and its final window update (decrypting, no lock
// held), another goroutine completes the delivery of an arbitrary counter - the same one or a different one. The
// scripted AEAD's hook plays the second goroutine at exactly that point.
func VerifC12Interleaved() {
	const n = 64
	cs, vc := c12State(n)
	ctr, other, third := verifU64("counter"), verifU64("other_counter"), verifU64("third_counter")
	verifAssume(ctr < 1<<63 && other < 1<<63 && third < 1<<63)
	relayed := verifBool("relayed")
	pkt := verifBytes("packet", 40)
	otherDelivered := false
	vc.hook = func() {
		cs.decryptLock.Lock()
		otherDelivered = cs.window.Update(c12Log, other)
		cs.decryptLock.Unlock()
		// ... and a third goroutine completes yet another counter (it may slide the window past everything)
		cs.decryptLock.Lock()
		thirdDelivered := cs.window.Update(c12Log, third)
		cs.decryptLock.Unlock()
		if third == ctr && thirdDelivered {
			otherDelivered = true
		}
		vc.hook = nil
	}
	var err error
	if relayed {
		err = cs.VerifyRelay(c12Log, ctr, pkt, make([]byte, 12))
	} else {
		_, err = cs.Decrypt(c12Log, ctr, pkt, make([]byte, 12))
	}
	if other == ctr || third == ctr {
		verifAssert(!(otherDelivered && err == nil), "goroutines racing on the same counter (with any other delivery in between): at most one acts on it")
	}
	if err == nil {
		verifAssert(!cs.window.Check(c12Log, ctr), "an acted-upon counter is marked as seen")
	}
}
