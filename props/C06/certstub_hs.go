package handshake

import (
	"net/netip"
	"time"

	"github.com/slackhq/nebula/cert"
)

// vCert is a plain-data implementation of cert.Certificate for harnesses that need a peer or CA certificate whose
// FIELDS matter (name, issuer, groups, networks) but whose encoding and signature do not.
type vCert struct {
	name     string
	issuer   string
	groups   []string
	networks []netip.Prefix
	unsafe   []netip.Prefix
	isCA     bool
	nb, na   time.Time
	pub      []byte
	ver      cert.Version
	curve    cert.Curve
	fp       string
	sigOK    bool
}

func (c *vCert) Version() cert.Version               { return c.ver }
func (c *vCert) Name() string                        { return c.name }
func (c *vCert) Networks() []netip.Prefix            { return c.networks }
func (c *vCert) UnsafeNetworks() []netip.Prefix      { return c.unsafe }
func (c *vCert) Groups() []string                    { return c.groups }
func (c *vCert) IsCA() bool                          { return c.isCA }
func (c *vCert) NotBefore() time.Time                { return c.nb }
func (c *vCert) NotAfter() time.Time                 { return c.na }
func (c *vCert) Issuer() string                      { return c.issuer }
func (c *vCert) PublicKey() []byte                   { return c.pub }
func (c *vCert) MarshalPublicKeyPEM() []byte         { return nil }
func (c *vCert) Curve() cert.Curve                   { return c.curve }
func (c *vCert) Signature() []byte                   { return nil }
func (c *vCert) CheckSignature(key []byte) bool      { return c.sigOK }
func (c *vCert) Fingerprint() (string, error)        { return c.fp, nil }
func (c *vCert) Expired(t time.Time) bool            { return t.Before(c.nb) || t.After(c.na) }
func (c *vCert) VerifyPrivateKey(cert.Curve, []byte) error { return nil }
func (c *vCert) Marshal() ([]byte, error)            { return nil, nil }
func (c *vCert) MarshalForHandshakes() ([]byte, error) { return nil, nil }
func (c *vCert) MarshalPEM() ([]byte, error)         { return nil, nil }
func (c *vCert) MarshalJSON() ([]byte, error)        { return []byte("{}"), nil }
func (c *vCert) String() string                      { return c.name }
func (c *vCert) Copy() cert.Certificate              { n := *c; return &n }

// vCached wraps a vCert like cert.NewCachedCertificate would (inverted group set).
func vCached(c *vCert) *cert.CachedCertificate {
	inv := make(map[string]struct{}, len(c.groups))
	for _, g := range c.groups {
		inv[g] = struct{}{}
	}
	return &cert.CachedCertificate{Certificate: c, InvertedGroups: inv, Fingerprint: c.fp}
}
