package handshake

import (
	"errors"

	"github.com/flynn/noise"
	"github.com/slackhq/nebula/cert"
	"github.com/slackhq/nebula/header"
)

// C06 / C07 — nebula's half of the handshake contracts, with the Noise library replaced by its CONTRACT:
//
//   * WriteMessage / ReadMessage carry the payload through unchanged (the stub is a clear-text channel), advance the
//     message index by one on success, and on the last IX message hand BOTH sides the same pair (cs1, cs2) where cs1
//     is the initiator->responder cipher (documented by flynn/noise);
//   * a ReadMessage that fails leaves the state untouched (checkpoint/rollback, documented by flynn/noise);
//   * PeerStatic() is the static key of whoever wrote the message.
//
// With that contract assumed, the real Machine (Initiate, ProcessPacket, buildResponse, marshalOutgoing,
// processPayload, validateCert, completed) must give: each side's send key is the other's receive key, each side's
// remote index is the other's local index, equal message counts, non-zero local indexes (C06); and a rejected
// message while the machine is usable changes nothing, a failed machine refuses everything (C07).
// MarshalPayload / UnmarshalPayload are replaced by a pass-through table (the codec is C08's subject).

type c06Side struct {
	hs  *noise.HandshakeState
	idx int
	pub []byte
}

var c06I, c06R c06Side
var c06CS1, c06CS2 *noise.CipherState
var c06Wire []Payload

func c06Of(hs *noise.HandshakeState) *c06Side {
	if hs == c06I.hs {
		return &c06I
	}
	return &c06R
}

func c06MessageIndex(hs *noise.HandshakeState) int { return c06Of(hs).idx }
func c06PeerStatic(hs *noise.HandshakeState) []byte {
	if hs == c06I.hs {
		return c06R.pub
	}
	return c06I.pub
}
// wire shape of the stub channel: 32 bytes standing for the ephemeral key, the payload, one byte standing for the
// authentication tag (0x5A when intact)
func c06WriteMessage(hs *noise.HandshakeState, out, payload []byte) ([]byte, *noise.CipherState, *noise.CipherState, error) {
	s := c06Of(hs)
	s.idx++
	for i := 0; i < 32; i++ {
		out = append(out, byte(0xE0+s.idx))
	}
	out = append(out, payload...)
	out = append(out, 0x5A)
	if s.idx == 2 {
		return out, c06CS1, c06CS2, nil
	}
	return out, nil, nil, nil
}
func c06ReadMessage(hs *noise.HandshakeState, out, message []byte) ([]byte, *noise.CipherState, *noise.CipherState, error) {
	s := c06Of(hs)
	if len(message) < 33 || message[len(message)-1] != 0x5A {
		return nil, nil, nil, errors.New("noise: message authentication failed") // state untouched
	}
	message = message[32 : len(message)-1]
	s.idx++
	if s.idx == 2 {
		return message, c06CS1, c06CS2, nil
	}
	return message, nil, nil, nil
}
func c06Marshal(out []byte, p Payload) []byte {
	c06Wire = append(c06Wire, p)
	return append(out, byte(len(c06Wire))) // 1-based ticket
}
func c06Unmarshal(b []byte) (Payload, error) {
	if len(b) != 1 || b[0] == 0 || int(b[0]) > len(c06Wire) {
		return Payload{}, errors.New("malformed payload")
	}
	return c06Wire[b[0]-1], nil
}
func c06Recombine(v cert.Version, raw, publicKey []byte, curve cert.Curve) (cert.Certificate, error) {
	return &vCert{name: "peer", ver: cert.Version2, pub: publicKey}, nil
}
func c06BuildHS(hc *Credential, initiator bool, pattern noise.HandshakePattern) (*noise.HandshakeState, error) {
	if initiator {
		return c06I.hs, nil
	}
	return c06R.hs, nil
}

func c06Machine(initiator bool, index uint32) *Machine {
	cred := &Credential{Cert: &vCert{name: "me", ver: cert.Version2}, Bytes: []byte{1, 2, 3}}
	m, err := NewMachine(cert.Version2,
		func(v cert.Version) *Credential {
			if v == cert.Version2 {
				return cred
			}
			return nil
		},
		func(c cert.Certificate) (*cert.CachedCertificate, error) { return &cert.CachedCertificate{Certificate: c}, nil },
		func() (uint32, error) { return index, nil },
		initiator, header.HandshakeIXPSK0)
	verifAssume(err == nil)
	return m
}

func c06Reset() {
	c06I = c06Side{hs: &noise.HandshakeState{}, pub: []byte{1, 1, 1, 1}}
	c06R = c06Side{hs: &noise.HandshakeState{}, pub: []byte{2, 2, 2, 2}}
	c06CS1, c06CS2 = &noise.CipherState{}, &noise.CipherState{}
	c06Wire = nil
}

// VerifC06Agree: a complete IX exchange between two real Machines.
func VerifC06Agree() {
	c06Reset()
	li, lr := verifU32("initiator_local_index"), verifU32("responder_local_index")
	mi, mr := c06Machine(true, li), c06Machine(false, lr)
	msg1, err := mi.Initiate(nil)
	verifAssert(err == nil, "the initiator produces its first message")
	resp, rres, err := mr.ProcessPacket(nil, msg1)
	if li == 0 {
		verifAssert(err != nil && rres == nil && mr.Failed(), "a zero initiator index is refused by the responder")
		return
	}
	verifAssert(err == nil && rres != nil && resp != nil, "the responder completes on the first message and answers")
	_, ires, err := mi.ProcessPacket(nil, resp)
	if lr == 0 {
		verifAssert(err != nil && ires == nil && mi.Failed(), "a zero responder index is refused by the initiator")
		return
	}
	verifAssert(err == nil && ires != nil, "the initiator completes on the answer")
	verifAssert(ires.EKey == rres.DKey && ires.DKey == rres.EKey && ires.EKey != ires.DKey, "each side's sending key is the other side's receiving key")
	verifAssert(ires.EKey == c06CS1, "the initiator sends with the initiator->responder cipher")
	verifAssert(ires.RemoteIndex == rres.LocalIndex && rres.RemoteIndex == ires.LocalIndex, "each side's remote index is the other side's local index")
	verifAssert(ires.LocalIndex == li && rres.LocalIndex == lr && li != 0 && lr != 0, "local indexes are the allocated, non-zero ones")
	verifAssert(ires.MessageIndex == rres.MessageIndex && ires.MessageIndex == 2, "both sides report the same message count")
	verifAssert(ires.Initiator && !rres.Initiator, "roles are reported")
	verifAssert(ires.RemoteCert != nil && rres.RemoteCert != nil, "both sides report the peer certificate")
	// the outer header of each message
	var h1, h2 header.H
	verifAssert(h1.Parse(msg1) == nil && h1.Type == header.Handshake && h1.RemoteIndex == 0 && h1.MessageCounter == 1, "message 1 header: handshake, remote index unknown, counter 1")
	verifAssert(h2.Parse(resp) == nil && h2.RemoteIndex == li && h2.MessageCounter == 2, "message 2 header: addressed to the initiator's index, counter 2")
	verifObserve("done", 1)
}

// VerifC07Rejected: the initiator receives junk before the genuine answer.
func VerifC07Rejected() {
	c06Reset()
	li, lr := verifU32("initiator_local_index"), verifU32("responder_local_index")
	verifAssume(li != 0 && lr != 0)
	mi, mr := c06Machine(true, li), c06Machine(false, lr)
	msg1, err := mi.Initiate(nil)
	verifAssume(err == nil)
	resp, _, err := mr.ProcessPacket(nil, msg1)
	verifAssume(err == nil)

	// junk of one of four kinds arrives first
	var junk []byte
	switch verifInt("junk_kind", 0, 3) {
	case 0:
		junk = make([]byte, verifInt("short_len", 0, header.Len-1)) // too short
	case 1:
		junk = append([]byte(nil), resp...)
		junk[1] ^= 0x01 // another handshake subtype
	case 2:
		junk = append([]byte(nil), resp...) // a same-length copy of the genuine answer with a bit flipped in its tag: fails Noise authentication
		junk[len(junk)-1] ^= verifU8("tag_flip") | 1
	default:
		junk = append([]byte(nil), resp[:header.Len]...) // empty Noise message
	}
	before := *mi
	beforeRes := *mi.result
	_, jres, jerr := mi.ProcessPacket(nil, junk)
	verifAssert(jerr != nil && jres == nil, "junk is rejected")
	verifAssert(!mi.Failed(), "a message rejected before the Noise state advanced leaves the handshake usable")
	verifAssert(mi.indexAllocated == before.indexAllocated && mi.remoteCertSet == before.remoteCertSet && mi.payloadSet == before.payloadSet && mi.myVersion == before.myVersion &&
		mi.result.RemoteIndex == beforeRes.RemoteIndex && mi.result.LocalIndex == beforeRes.LocalIndex && mi.result.RemoteCert == beforeRes.RemoteCert && c06I.idx == 1,
		"a rejected message changes nothing")
	// the genuine answer still completes, exactly as without the junk
	_, ires, err := mi.ProcessPacket(nil, resp)
	verifAssert(err == nil && ires != nil && ires.RemoteIndex == lr && ires.LocalIndex == li && ires.MessageIndex == 2 && ires.EKey == c06CS1 && ires.DKey == c06CS2 && ires.RemoteCert != nil,
		"the genuine message delivered afterwards completes the handshake as if the rejected one had never arrived")

	// a failed machine refuses everything, including the genuine message
	mf := c06Machine(true, li)
	mf.failed = true
	o, r, e := mf.ProcessPacket(nil, resp)
	verifAssert(e != nil && r == nil && o == nil, "a failed handshake refuses every later input")
	o2, e2 := mf.Initiate(nil)
	verifAssert(e2 != nil && o2 == nil, "a failed handshake refuses to initiate")
	// content errors after the Noise state advanced are fatal
	c06Reset()
	mi2, mr2 := c06Machine(true, li), c06Machine(false, lr)
	m1, _ := mi2.Initiate(nil)
	bad := append([]byte(nil), m1...)
	bad[len(bad)-2] = 99 // a ticket the pass-through table does not hold: malformed payload inside an intact message
	_, r2, e3 := mr2.ProcessPacket(nil, bad)
	verifAssert(e3 != nil && r2 == nil && mr2.Failed(), "a malformed payload inside an authenticated message is fatal")
	verifObserve("done", 1)
}
