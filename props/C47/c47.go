package header

// C47 — the packet header encoding is exact.

// VerifC47RoundTrip: Encode -> Parse is the identity on (version, type, subtype, index, counter), reserved = 0.
func VerifC47RoundTrip() {
	v, ty, st := verifU8("v"), verifU8("t"), verifU8("st")
	ri, c := verifU32("ri"), verifU64("c")
	verifAssume(v < 16)  // 4 bits on the wire (DESIGN B.7)
	verifAssume(ty < 16) // 4 bits on the wire
	capb := verifCase("cap") // capacity of the caller's buffer: 16..20
	b := make([]byte, 0, capb)
	out := Encode(b, v, MessageType(ty), MessageSubType(st), ri, c)
	verifAssert(len(out) == Len, "encoded header is exactly 16 bytes")
	var h H
	err := h.Parse(out)
	verifAssert(err == nil, "parse accepts the encoded header")
	verifAssert(h.Version == v, "version round-trips")
	verifAssert(uint8(h.Type) == ty, "type round-trips")
	verifAssert(uint8(h.Subtype) == st, "subtype round-trips")
	verifAssert(h.Reserved == 0, "reserved is zero")
	verifAssert(h.RemoteIndex == ri, "index round-trips")
	verifAssert(h.MessageCounter == c, "counter round-trips")
	// wire layout (big endian, documented in the file header)
	verifAssert(out[0] == v<<4|ty, "byte 0 = version<<4 | type")
	verifAssert(out[1] == st, "byte 1 = subtype")
	verifAssert(out[2] == 0 && out[3] == 0, "bytes 2-3 reserved zero")
	verifAssert(out[4] == byte(ri>>24) && out[7] == byte(ri), "index big endian")
	verifAssert(out[8] == byte(c>>56) && out[15] == byte(c), "counter big endian")
	verifObserve("b0", uint64(out[0]))
	verifObserve("ctr", h.MessageCounter)
	// method form agrees
	h2 := &H{Version: v, Type: MessageType(ty), Subtype: MessageSubType(st), RemoteIndex: ri, MessageCounter: c}
	out2, err2 := h2.Encode(make([]byte, 16))
	verifAssert(err2 == nil, "H.Encode ok")
	for i := 0; i < Len; i++ {
		verifAssert(out2[i] == out[i], "H.Encode equals Encode")
	}
}

// VerifC47Parse: Parse accepts exactly inputs of >= 16 bytes, and its result depends on the first 16 bytes only.
func VerifC47Parse() {
	n := verifCase("n") // every length 0..24
	// the input is the first n bytes of a larger (receive) buffer: capacity beyond the length must not matter
	raw := verifBytes("raw", 40)[:n]
	var h H
	err := h.Parse(raw)
	verifAssert((err == nil) == (n >= Len), "accept iff at least 16 bytes")
	if err != nil {
		verifAssert(err == ErrHeaderTooShort, "short input reports ErrHeaderTooShort")
		verifAssert(h == H{}, "rejected input leaves the header untouched")
		return
	}
	// a second buffer that agrees on the first 16 bytes and is arbitrary afterwards parses identically
	raw2 := verifBytes("raw2", 40)[:n]
	for i := 0; i < Len; i++ {
		verifAssume(raw2[i] == raw[i])
	}
	var g H
	verifAssert(g.Parse(raw2) == nil, "accept (2)")
	verifAssert(g == h, "bytes beyond 16 do not influence the result")
	verifAssert(h.Version == raw[0]>>4 && uint8(h.Type) == raw[0]&15 && uint8(h.Subtype) == raw[1], "fields from bytes 0-1")
	verifAssert(h.Reserved == uint16(raw[2])<<8|uint16(raw[3]), "reserved from bytes 2-3")
	verifObserve("idx", uint64(h.RemoteIndex))
	nh, nerr := NewHeader(raw)
	verifAssert(nerr == nil && *nh == h, "NewHeader agrees with Parse")
}

// VerifC47SubType: IsValidSubType equals the documented table for all 2^16 pairs.
func VerifC47SubType() {
	t, s := MessageType(verifU8("t")), MessageSubType(verifU8("s"))
	want := false
	switch t {
	case Handshake: // only IX
		want = s == 0
	case Message: // none, relay
		want = s <= 1
	case Test: // request, reply
		want = s <= 1
	case RecvError, LightHouse, CloseTunnel, Control:
		want = s == 0
	}
	verifAssert(IsValidSubType(t, s) == want, "IsValidSubType equals the documented table")
	h := &H{Type: t, Subtype: s}
	verifAssert(h.IsValidSubType() == want, "method form equals the table")
	var o uint64
	if want {
		o = 1
	}
	verifObserve("valid", o)
}
