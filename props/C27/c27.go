package udp

import (
	"net/netip"
	"unsafe"

	"golang.org/x/sys/unix"
)

// C27 — received offload superdatagrams split back exactly; cmsg parsing never reads outside the buffer.

// VerifC27Deliver: deliverSegments on every payload length 0..48 and every segment size (full int range).
func VerifC27Deliver() {
	const capN = 48
	n := verifInt("len", 0, capN)
	buf := verifBytes("payload", capN)
	payload := buf[:n]
	seg := int(verifU64("seg")) // any int, including zero, negative and above the length
	j := verifInt("j", 0, capN) // Skolem byte position: the byte at j must be delivered exactly once, in place
	verifAssume(j < n)
	from := netip.AddrPortFrom(netip.AddrFrom4([4]byte{10, 0, 0, 1}), 4242)

	pieces := 0
	next := 0     // offset where the next piece must start
	seenJ := 0    // how often byte j was delivered
	okShape := true
	okData := true
	lastShort := false
	r := func(a netip.AddrPort, p []byte) {
		if a != from {
			okShape = false
		}
		if lastShort { // a short piece may only be the last one
			okShape = false
		}
		whole := seg <= 0 || seg >= n
		if whole {
			if len(p) != n {
				okShape = false
			}
		} else {
			if len(p) > seg || len(p) == 0 {
				okShape = false
			}
			if len(p) < seg {
				lastShort = true
			}
		}
		if cap(p) != len(p) { // pieces must not expose the following bytes through spare capacity
			okShape = false
		}
		if j >= next && j < next+len(p) {
			seenJ++
			if p[j-next] != payload[j] {
				okData = false
			}
		}
		next += len(p)
		pieces++
	}
	deliverSegments(r, from, payload, seg)
	verifAssert(okShape, "every piece has the coalescing size except a shorter last one (or the datagram is delivered whole)")
	verifAssert(next == n, "pieces together cover exactly the received bytes")
	if n > 0 {
		verifAssert(seenJ == 1 && okData, "each received byte is delivered exactly once, at its place")
	}
	if seg <= 0 || seg >= n {
		verifAssert(pieces == 1, "missing or nonsensical size delivers the datagram whole")
	}
	// (the number of pieces is determined by shape + coverage: all pieces have the size except a shorter last one)
	verifObserve("pieces", uint64(pieces))
}

// reference first-level cmsg walk (RFC 3542 / Linux CMSG_* macros), written from the kernel ABI
func c27RefGSO(ctrl []byte) (gso int) {
	off := 0
	for k := 0; k < 6; k++ {
		if off+16 > len(ctrl) {
			break
		}
		clen := int(uint64(ctrl[off]) | uint64(ctrl[off+1])<<8 | uint64(ctrl[off+2])<<16 | uint64(ctrl[off+3])<<24 |
			uint64(ctrl[off+4])<<32 | uint64(ctrl[off+5])<<40 | uint64(ctrl[off+6])<<48 | uint64(ctrl[off+7])<<56)
		if clen < 16 || clen > len(ctrl)-off {
			break
		}
		level := int32(uint32(ctrl[off+8]) | uint32(ctrl[off+9])<<8 | uint32(ctrl[off+10])<<16 | uint32(ctrl[off+11])<<24)
		typ := int32(uint32(ctrl[off+12]) | uint32(ctrl[off+13])<<8 | uint32(ctrl[off+14])<<16 | uint32(ctrl[off+15])<<24)
		if level == unix.SOL_UDP && typ == unix.UDP_GRO && off+20 <= len(ctrl) {
			gso = int(int32(uint32(ctrl[off+16]) | uint32(ctrl[off+17])<<8 | uint32(ctrl[off+18])<<16 | uint32(ctrl[off+19])<<24))
		}
		off += (clen + 7) &^ 7
	}
	return gso
}

// VerifC27Cmsg: parseRecvCmsg on an arbitrary ancillary buffer with an arbitrary controllen inside it.
func VerifC27Cmsg() {
	const capN = 64
	buf := verifBytes("ctrl", capN)
	cl := verifInt("controllen", 0, capN)
	var hdr msghdr
	hdr.Control = &buf[0]
	hdr.Controllen = uint64(cl)
	got := parseRecvCmsg(&hdr) // out-of-bounds typed reads are implicit obligations
	verifAssert(got == c27RefGSO(buf[:cl]), "parsed coalescing size equals the reference walk of the ancillary data")
	if cl < 20 {
		verifAssert(got == 0, "no room for a UDP_GRO cmsg means no size")
	}
	verifObserve("gso", uint64(got))
	_ = unsafe.Sizeof(hdr)
}
