package nebula

import "net/netip"

// C48 — calculated remotes splice mask and overlay bits exactly.

func c48Addr4(name string) netip.Addr {
	b := verifBytes(name, 4)
	return netip.AddrFrom4([4]byte{b[0], b[1], b[2], b[3]})
}

func c48Addr16(name string) (netip.Addr, uint64, uint64) {
	b := verifBytes(name, 16)
	var a [16]byte
	copy(a[:], b)
	var hi, lo uint64
	for i := 0; i < 8; i++ {
		hi = hi<<8 | uint64(b[i])
		lo = lo<<8 | uint64(b[8+i])
	}
	return netip.AddrFrom16(a), hi, lo
}

// VerifC48V4: all IPv4 mask addresses, overlay addresses, prefix lengths 0..32 and ports.
func VerifC48V4() {
	maskAddr, overlay := c48Addr4("mask"), c48Addr4("overlay")
	bits := verifInt("bits", 0, 32)
	port := int(verifU64("port"))
	cidrBits := verifInt("cidrbits", 0, 32)
	cidr := netip.PrefixFrom(c48Addr4("cidr"), cidrBits)
	cr, err := newCalculatedRemote(cidr, netip.PrefixFrom(maskAddr, bits), port)
	if port < 0 || port > 65535 {
		verifAssert(err != nil && cr == nil, "port outside 0..65535 is refused")
		return
	}
	verifAssert(err == nil && cr != nil, "same-family mask with a valid port is accepted")
	got := cr.ApplyV4(overlay)
	m4, o4 := maskAddr.As4(), overlay.As4()
	mw := uint32(m4[0])<<24 | uint32(m4[1])<<16 | uint32(m4[2])<<8 | uint32(m4[3])
	ow := uint32(o4[0])<<24 | uint32(o4[1])<<16 | uint32(o4[2])<<8 | uint32(o4[3])
	// oracle: the top `bits` bits come from the mask address, the rest from the overlay address
	var netmask uint32
	if bits > 0 {
		netmask = ^uint32(0) << (32 - uint(bits))
	}
	verifAssert(got.Addr == (mw&netmask)|(ow&^netmask), "IPv4: masked bits from the mask address, remaining bits from the overlay address")
	verifAssert(got.Port == uint32(port), "configured port kept")
	verifObserve("addr", uint64(got.Addr))
}

// VerifC48V6: all IPv6 addresses, prefix lengths 0..128 and ports.
func VerifC48V6() {
	maskAddr, mhi, mlo := c48Addr16("mask")
	overlay, ohi, olo := c48Addr16("overlay")
	bits := verifInt("bits", 0, 128)
	port := verifInt("port", 0, 65535)
	cidrAddr, _, _ := c48Addr16("cidr")
	cidr := netip.PrefixFrom(cidrAddr, verifInt("cidrbits", 0, 128))
	cr, err := newCalculatedRemote(cidr, netip.PrefixFrom(maskAddr, bits), port)
	verifAssert(err == nil && cr != nil, "same-family mask with a valid port is accepted")
	got := cr.ApplyV6(overlay)
	var nmhi, nmlo uint64
	switch {
	case bits == 0:
	case bits <= 64:
		nmhi = ^uint64(0) << (64 - uint(bits))
	default:
		nmhi = ^uint64(0)
		nmlo = ^uint64(0) << (128 - uint(bits))
	}
	verifAssert(got.Hi == (mhi&nmhi)|(ohi&^nmhi), "IPv6 high half spliced at the prefix length")
	verifAssert(got.Lo == (mlo&nmlo)|(olo&^nmlo), "IPv6 low half spliced at the prefix length")
	verifAssert(got.Port == uint32(port), "configured port kept")
	verifObserve("hi", got.Hi)
	verifObserve("lo", got.Lo)
}

// VerifC48Family: a mask of the other family is refused, whatever the port.
func VerifC48Family() {
	a4, b := c48Addr4("a4"), verifInt("b4", 0, 32)
	a6, _, _ := c48Addr16("a6")
	c := verifInt("b6", 0, 128)
	port := verifInt("port", 0, 65535)
	cr, err := newCalculatedRemote(netip.PrefixFrom(a4, b), netip.PrefixFrom(a6, c), port)
	verifAssert(err != nil && cr == nil, "IPv6 mask for an IPv4 range is refused")
	cr, err = newCalculatedRemote(netip.PrefixFrom(a6, c), netip.PrefixFrom(a4, b), port)
	verifAssert(err != nil && cr == nil, "IPv4 mask for an IPv6 range is refused")
}
