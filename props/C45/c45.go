package nebula

import "path/filepath"

// C45 — SSH debug file paths stay inside the sandbox.

func c45String(name string, n int) string {
	s := string(verifBytes(name, n)) // exact length n (case split), arbitrary contents over the alphabet
	for i := 0; i < len(s); i++ {
		verifAssume(s[i] == '/' || s[i] == '.' || s[i] == 'a')
	}
	return s
}

func c45HasPrefix(s, p string) bool { return len(s) >= len(p) && s[:len(p)] == p }

// c45Inside: the cleaned path p lies strictly inside the cleaned directory d (lexically): the way from d to p
// descends only (no `..` step) and is not empty.
func c45Inside(p, d string) bool {
	if p == d {
		return false
	}
	switch d {
	case "/":
		return len(p) > 1 && p[0] == '/'
	case ".":
		return len(p) > 0 && p[0] != '/' && p != ".." && !c45HasPrefix(p, "../")
	}
	if !c45HasPrefix(p, d) || len(p) <= len(d)+1 || p[len(d)] != '/' {
		return false
	}
	rest := p[len(d)+1:]
	return rest != ".." && !c45HasPrefix(rest, "../")
}

func VerifC45Sanitize() {
	sandbox := c45String("sandbox", verifCase("sandboxlen")) // >= 1: an empty sandbox disables the check by design
	path := c45String("path", verifCase("pathlen"))
	c45Check(sandbox, path)
}

// VerifC45DotDot: the sandbox `..` with every 2-character path (the region of the recorded finding, kept as its
// own cheap unit so that the finding is reproduced in the quick tier).
func VerifC45DotDot() {
	c45Check("..", c45String("path", 2))
}

func c45Check(sandbox, path string) {
	d := filepath.Clean(sandbox)
	// known finding: a sandbox that itself climbs out of the working directory (`..`, `../..`) accepts its own parents
	if verifKnown("C45-dotdot-sandbox", d == ".." || c45HasPrefix(d, "../")) {
		return
	}
	got, err := sshSanitizeFilePath(sandbox, path)
	full := path
	if len(path) == 0 || path[0] != '/' {
		full = sandbox + "/" + path
	}
	want := filepath.Clean(full)
	if err == nil {
		verifAssert(got == want, "an accepted path is returned in its lexically resolved form")
		verifAssert(c45Inside(got, d), "an accepted path lies strictly inside the sandbox directory")
		verifObserve("accepted", 1)
	} else {
		verifObserve("accepted", 0)
	}
	if !c45Inside(want, d) {
		verifAssert(err != nil, "a path that does not resolve strictly inside the sandbox is refused")
	}
}

// VerifC45AbsInside: absolute paths that begin inside the sandbox `/a` and continue with every tail of the case's
// length over the alphabet (`..`, `.`, `//` steps that climb back out included).
func VerifC45AbsInside() {
	c45Check("/a", "/a/"+c45String("tail", verifCase("taillen")))
}
