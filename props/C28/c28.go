package nebula

import (
	"log/slog"
	"net/netip"
)

// C28 — hostmap indexes stay consistent.
//
// A bounded history of symbolic operations (add a fresh tunnel / delete / promote, on arbitrary tunnels of a small
// universe, including promoting an already removed tunnel) on the real HostMap starting from newHostMap, followed
// by the representation invariant (DESIGN B.3) and the per-operation post-conditions of the statement.

var c28Log = slog.New(slog.DiscardHandler)

const c28N = 3

var (
	c28A = netip.AddrFrom4([4]byte{10, 0, 0, 1})
	c28B = netip.AddrFrom4([4]byte{10, 0, 0, 2})
)

func c28Owns(h *HostInfo, a netip.Addr) bool {
	n := len(h.vpnAddrs) // 1 or 2 in this universe
	return (n >= 1 && h.vpnAddrs[0] == a) || (n >= 2 && h.vpnAddrs[1] == a)
}

func c28Live(hm *HostMap, h *HostInfo) bool { return hm.Indexes[h.localIndexId] == h }

func c28InList(hm *HostMap, a netip.Addr, h *HostInfo) bool {
	if l, ok := hm.moreHosts[a]; ok {
		n := len(l) // at most c28N tunnels exist
		return (n >= 1 && l[0] == h) || (n >= 2 && l[1] == h) || (n >= 3 && l[2] == h)
	}
	return hm.Hosts[a] == h
}

// c28Invariant asserts the representation invariant over the two addresses and the universe hs.
func c28Invariant(hm *HostMap, hs *[c28N]*HostInfo) {
	for ai := 0; ai < 2; ai++ {
		a := c28A
		if ai == 1 {
			a = c28B
		}
		if p, ok := hm.Hosts[a]; ok {
			verifAssert(p != nil && c28Live(hm, p), "the primary of an address is a live tunnel")
			verifAssert(c28Owns(p, a), "the primary of an address holds that address")
		}
		if l, ok := hm.moreHosts[a]; ok {
			verifAssert(len(l) >= 2 && len(l) <= c28N, "a tunnel list exists only for 2 or more tunnels (and never more than exist)")
			verifAssert(hm.Hosts[a] == l[0], "the primary is the head of the list")
			for i := 0; i < c28N; i++ {
				if i < len(l) {
					verifAssert(c28Live(hm, l[i]) && c28Owns(l[i], a), "every listed tunnel is live and holds the address")
					for j := i + 1; j < c28N; j++ {
						if j < len(l) {
							verifAssert(l[i] != l[j], "no tunnel is listed twice")
						}
					}
				}
			}
		}
	}
	for i := 0; i < c28N; i++ {
		h := hs[i]
		if c28Live(hm, h) {
			verifAssert(c28InList(hm, h.vpnAddrs[0], h), "a live tunnel is reachable under each of its addresses")
			if len(h.vpnAddrs) > 1 {
				verifAssert(c28InList(hm, h.vpnAddrs[1], h), "a live tunnel is reachable under each of its addresses")
			}
		} else {
			verifAssert(!c28InList(hm, c28A, h) && !c28InList(hm, c28B, h), "a removed tunnel is referenced by no address")
			verifAssert(hm.RemoteIndexes[h.remoteIndexId] != h, "a removed tunnel is referenced by no remote index")
		}
	}
	for r := uint32(11); r <= 12; r++ {
		if h, ok := hm.RemoteIndexes[r]; ok {
			verifAssert(h != nil && c28Live(hm, h), "remote indexes point to live tunnels")
		}
	}
}

// VerifC28Step: a concrete reachable pre-state (case split over tunnel shapes, remote-index collisions and a
// prefix history), then ONE fully symbolic operation (any of add/delete/promote on any tunnel).
func VerifC28Step() {
	hm := newHostMap(c28Log)
	f := &Interface{}
	var hs [c28N]*HostInfo
	shape := verifCase("shape")
	ridxN := [c28N]string{"ridx0", "ridx1", "ridx2"}
	for i := 0; i < c28N; i++ {
		// remote indexes are chosen by the peers: arbitrary, collisions included
		h := &HostInfo{localIndexId: uint32(i + 1), remoteIndexId: uint32(11 + verifInt(ridxN[i], 0, 1))}
		kind := 0 // 0:[A] 1:[B] 2:[A,B] 3:[B,A]
		switch shape {
		case 0:
			kind = [3]int{0, 2, 3}[i]
		case 1:
			kind = 2
		case 2:
			kind = [3]int{0, 1, 2}[i]
		default:
			kind = [3]int{3, 3, 2}[i]
		}
		switch kind {
		case 0:
			h.vpnAddrs = []netip.Addr{c28A}
		case 1:
			h.vpnAddrs = []netip.Addr{c28B}
		case 2:
			h.vpnAddrs = []netip.Addr{c28A, c28B}
		default:
			h.vpnAddrs = []netip.Addr{c28B, c28A}
		}
		hs[i] = h
	}
	switch verifCase("prefix") { // reachable pre-states
	case 0:
	case 1:
		hm.unlockedAddHostInfo(hs[0], f)
	case 2:
		hm.unlockedAddHostInfo(hs[0], f)
		hm.unlockedAddHostInfo(hs[1], f)
	case 3:
		hm.unlockedAddHostInfo(hs[0], f)
		hm.unlockedAddHostInfo(hs[1], f)
		hm.unlockedAddHostInfo(hs[2], f)
	case 4:
		hm.unlockedAddHostInfo(hs[0], f)
		hm.unlockedAddHostInfo(hs[1], f)
		hm.unlockedAddHostInfo(hs[2], f)
		hm.unlockedDeleteHostInfo(hs[1])
	case 6: // two tunnels, one already removed: a delete of it again leaves exactly one sibling
		hm.unlockedAddHostInfo(hs[0], f)
		hm.unlockedAddHostInfo(hs[1], f)
		hm.unlockedDeleteHostInfo(hs[1])
	default:
		hm.unlockedAddHostInfo(hs[2], f)
		hm.unlockedAddHostInfo(hs[0], f)
		hm.unlockedMakePrimary(hs[2])
	}
	c28Invariant(hm, &hs) // the pre-state satisfies the invariant
	c28Op(hm, f, &hs, verifCase("op"), verifInt("who", 0, c28N-1))
	c28Invariant(hm, &hs)
	var live uint64
	for i := 0; i < c28N; i++ {
		if c28Live(hm, hs[i]) {
			live++
		}
	}
	verifObserve("live", live)
}

func c28Op(hm *HostMap, f *Interface, hs *[c28N]*HostInfo, op, w int) {
	h := hs[w]
	switch op {
	case 0: // add (only tunnels that are not in the map are added, as the handshake does)
		verifAssume(!c28Live(hm, h))
		hm.unlockedAddHostInfo(h, f)
		verifAssert(c28Live(hm, h), "an added tunnel is live")
		verifAssert(hm.Hosts[h.vpnAddrs[0]] == h && hm.Hosts[h.vpnAddrs[len(h.vpnAddrs)-1]] == h, "an added tunnel becomes primary for each of its addresses")
	case 1: // delete
		wasLive := c28Live(hm, h)
		othersA, othersB := false, false
		for i := 0; i < c28N; i++ {
			if i != w && c28Live(hm, hs[i]) {
				if c28Owns(hs[i], c28A) && c28Owns(h, c28A) {
					othersA = true
				}
				if c28Owns(hs[i], c28B) && c28Owns(h, c28B) {
					othersB = true
				}
			}
		}
		final := hm.unlockedDeleteHostInfo(h)
		verifAssert(!c28Live(hm, h), "a deleted tunnel is not live")
		_ = wasLive // also for a tunnel that was already removed (double delete): the report is about the OTHER tunnels
		verifAssert(final == (!othersA && !othersB), "deletion reports `last tunnel` exactly when no other tunnel holds any of its addresses")
	default: // promote (possibly a tunnel that was removed)
		wasLive := c28Live(hm, h)
		pa, pb := hm.Hosts[c28A], hm.Hosts[c28B]
		ok := hm.unlockedMakePrimary(h)
		verifAssert(ok == wasLive, "promotion succeeds exactly for tunnels that are in the map")
		if wasLive {
			verifAssert(hm.Hosts[h.vpnAddrs[0]] == h && hm.Hosts[h.vpnAddrs[len(h.vpnAddrs)-1]] == h, "a promoted tunnel is primary for each of its addresses")
		} else {
			verifAssert(hm.Hosts[c28A] == pa && hm.Hosts[c28B] == pb && !c28Live(hm, h), "promoting a removed tunnel changes nothing")
		}
	}
}

func VerifC28History() {
	steps := verifCase("steps")
	hm := newHostMap(c28Log)
	f := &Interface{}
	var hs [c28N]*HostInfo
	addrN := [c28N]string{"addrs0", "addrs1", "addrs2"}
	ridxN := [c28N]string{"ridx0", "ridx1", "ridx2"}
	for i := 0; i < c28N; i++ {
		h := &HostInfo{localIndexId: uint32(i + 1), remoteIndexId: uint32(11 + verifInt(ridxN[i], 0, 1))}
		switch verifInt(addrN[i], 0, 3) { // the tunnel's addresses: any non-empty list over {A,B}
		case 0:
			h.vpnAddrs = []netip.Addr{c28A}
		case 1:
			h.vpnAddrs = []netip.Addr{c28B}
		case 2:
			h.vpnAddrs = []netip.Addr{c28A, c28B}
		default:
			h.vpnAddrs = []netip.Addr{c28B, c28A}
		}
		hs[i] = h
	}
	c28Invariant(hm, &hs) // base case
	opN := [5]string{"op0", "op1", "op2", "op3", "op4"}
	whoN := [5]string{"who0", "who1", "who2", "who3", "who4"}
	for s := 0; s < steps; s++ {
		w := verifCase(whoN[s]) // operation and operand are a case split; the tunnels' shapes stay symbolic
		h := hs[w]
		switch verifCase(opN[s]) {
		case 0: // add (only tunnels that are not in the map are added, as the handshake does)
			verifAssume(!c28Live(hm, h))
			hm.unlockedAddHostInfo(h, f)
			verifAssert(c28Live(hm, h), "an added tunnel is live")
			verifAssert(hm.Hosts[h.vpnAddrs[0]] == h && hm.Hosts[h.vpnAddrs[len(h.vpnAddrs)-1]] == h, "an added tunnel becomes primary for each of its addresses")
		case 1: // delete
			wasLive := c28Live(hm, h)
			othersA, othersB := false, false
			for i := 0; i < c28N; i++ {
				if i != w && c28Live(hm, hs[i]) {
					if c28Owns(hs[i], c28A) && c28Owns(h, c28A) {
						othersA = true
					}
					if c28Owns(hs[i], c28B) && c28Owns(h, c28B) {
						othersB = true
					}
				}
			}
			final := hm.unlockedDeleteHostInfo(h)
			verifAssert(!c28Live(hm, h), "a deleted tunnel is not live")
			if wasLive {
				verifAssert(final == (!othersA && !othersB), "deletion reports `last tunnel` exactly when no other tunnel holds any of its addresses")
			}
		default: // promote (possibly a tunnel that was removed)
			wasLive := c28Live(hm, h)
			pa, pb := hm.Hosts[c28A], hm.Hosts[c28B]
			ok := hm.unlockedMakePrimary(h)
			verifAssert(ok == wasLive, "promotion succeeds exactly for tunnels that are in the map")
			if wasLive {
				verifAssert(hm.Hosts[h.vpnAddrs[0]] == h && hm.Hosts[h.vpnAddrs[len(h.vpnAddrs)-1]] == h, "a promoted tunnel is primary for each of its addresses")
			} else {
				verifAssert(hm.Hosts[c28A] == pa && hm.Hosts[c28B] == pb && !c28Live(hm, h), "promoting a removed tunnel changes nothing")
			}
		}
	}
	c28Invariant(hm, &hs)
	var live uint64
	for i := 0; i < c28N; i++ {
		if c28Live(hm, hs[i]) {
			live++
		}
	}
	verifObserve("live", live)
}
