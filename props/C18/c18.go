package nebula

import (
	"log/slog"
	"net/netip"
	"time"

	"github.com/gaissmai/bart"
	"github.com/slackhq/nebula/cert"
	"github.com/slackhq/nebula/firewall"
)

// C18 — tracked flows are per-tuple and expire when idle.
//
// One inbound rule (tcp/80). An allowed inbound packet creates the flow; the reply direction has no rule, so a
// later outbound packet passes only through connection tracking. The clock is the engine's symbolic non-decreasing
// time.Now; natively the harness really sleeps for the gap chosen by the solver.

var c18Log = slog.New(slog.DiscardHandler)

const c18Timeout = 40 * time.Millisecond

func c18Setup() (*Firewall, *HostInfo, *cert.CAPool) {
	myCert := &vCert{name: "me", networks: []netip.Prefix{netip.MustParsePrefix("10.1.0.1/16")}}
	fw := NewFirewall(c18Log, c18Timeout, c18Timeout, c18Timeout, myCert)
	if fw.AddRule(true, firewall.ProtoTCP, 80, 80, nil, "any", "", "", "", "") != nil {
		verifAssume(false)
	}
	peerAddr := netip.AddrFrom4([4]byte{10, 1, 0, 2})
	peer := &vCert{name: "peer", issuer: "sha-one", networks: []netip.Prefix{netip.PrefixFrom(peerAddr, 16)}}
	myNets := new(bart.Lite)
	myNets.Insert(netip.MustParsePrefix("10.1.0.0/16"))
	h := &HostInfo{vpnAddrs: []netip.Addr{peerAddr}, ConnectionState: &ConnectionState{peerCert: vCached(peer)}}
	h.buildNetworks(myNets, peer)
	return fw, h, cert.NewCAPool()
}

func c18Packet(rport, lport uint16, proto uint8) firewall.Packet {
	return firewall.Packet{RemoteAddr: netip.AddrFrom4([4]byte{10, 1, 0, 2}), LocalAddr: netip.AddrFrom4([4]byte{10, 1, 0, 1}),
		RemotePort: rport, LocalPort: lport, Protocol: proto}
}

// c18Gap lets `ms` milliseconds pass: a real sleep natively; for the engine two readings of the symbolic clock
// that are at least that far apart (everything Drop reads in between is sandwiched).
func c18Gap(name string) time.Duration {
	ms := verifInt(name, 0, 120)
	a := time.Now()
	time.Sleep(time.Duration(ms) * time.Millisecond)
	b := time.Now()
	verifAssume(b.Sub(a) >= time.Duration(ms)*time.Millisecond)
	return time.Duration(ms) * time.Millisecond
}

// VerifC18Idle: create a flow, stay idle for an arbitrary gap, then send the reply-direction packet.
func VerifC18Idle() {
	fw, h, pool := c18Setup()
	flow := c18Packet(verifU16("rport"), 80, firewall.ProtoTCP)
	t0 := time.Now()
	verifAssert(fw.Drop(flow, true, h, pool, nil) == nil, "the inbound packet is allowed by the rule")
	gap := c18Gap("idle_ms")
	// known finding: inConns never compares the entry's expiry with the clock; an idle flow stays honoured until
	// an unrelated insert advances the timer wheel
	if verifKnown("C18-idle-flow-never-expires", gap > c18Timeout) {
		return
	}
	err := fw.Drop(flow, false, h, pool, nil) // reply direction: no outbound rule exists
	elapsed := time.Now().Sub(t0) // everything from before the first packet to after the second
	if gap > c18Timeout {
		verifAssert(err != nil, "a flow idle for longer than its timeout is not honoured again")
	}
	if elapsed < c18Timeout {
		verifAssert(err == nil, "a packet of a tracked flow that was idle for less than the timeout passes without a rule")
	}
	// observed only where the outcome does not depend on how fast the machine runs the harness
	if gap > c18Timeout {
		var o uint64
		if err == nil {
			o = 1
		}
		verifObserve("reply_passed", o)
	}
}

// VerifC18Tuple: tracking is per tuple: a different port, address or protocol is a different flow.
func VerifC18Tuple() {
	fw, h, pool := c18Setup()
	rport := verifU16("rport")
	flow := c18Packet(rport, 80, firewall.ProtoTCP)
	t0 := time.Now()
	verifAssert(fw.Drop(flow, true, h, pool, nil) == nil, "the inbound packet is allowed by the rule")
	other := c18Packet(verifU16("rport2"), verifU16("lport2"), verifU8("proto2"))
	other.Fragment = verifBool("frag2")
	err := fw.Drop(other, false, h, pool, nil)
	same := other == flow
	verifAssume(time.Now().Sub(t0) < c18Timeout)
	verifAssert((err == nil) == same, "without a rule a packet passes exactly when it belongs to the tracked flow (same addresses, ports, protocol)")
	// an inbound packet of another flow still needs the rule
	in2 := c18Packet(verifU16("rport3"), verifU16("lport3"), firewall.ProtoTCP)
	err2 := fw.Drop(in2, true, h, pool, nil)
	verifAssume(time.Now().Sub(t0) < c18Timeout) // the three packets arrive well inside the timeout
	verifAssert((err2 == nil) == (in2.LocalPort == 80 || in2 == flow || (same && in2 == other)), "inbound packets of other flows are judged by the rules")
}

// VerifC18Churn: two flows are created, stay idle for an arbitrary gap, then an unrelated allowed flow arrives
// (turning the timer wheel) before the reply-direction packet of one of the idle flows is judged.
func VerifC18Churn() {
	fw, h, pool := c18Setup()
	pa, pb, pc := verifU16("rport_a"), verifU16("rport_b"), verifU16("rport_c")
	verifAssume(pa != pb && pa != pc && pb != pc)
	a, b, c := c18Packet(pa, 80, firewall.ProtoTCP), c18Packet(pb, 80, firewall.ProtoTCP), c18Packet(pc, 80, firewall.ProtoTCP)
	t0 := time.Now()
	verifAssert(fw.Drop(a, true, h, pool, nil) == nil, "the inbound packet is allowed by the rule")
	verifAssert(fw.Drop(b, true, h, pool, nil) == nil, "the inbound packet is allowed by the rule")
	gap := c18Gap("idle_ms")
	verifAssert(fw.Drop(c, true, h, pool, nil) == nil, "the inbound packet is allowed by the rule")
	stale := a
	if verifBool("reply_of_b") {
		stale = b
	}
	err := fw.Drop(stale, false, h, pool, nil)
	elapsed := time.Now().Sub(t0)
	if gap > c18Timeout {
		verifAssert(err != nil, "a flow idle for longer than its timeout is not honoured again, whatever else the table holds")
	}
	if elapsed < c18Timeout {
		verifAssert(err == nil, "a packet of a tracked flow that was idle for less than the timeout passes without a rule")
	}
	// observed only where the outcome does not depend on how fast the machine runs the harness
	if gap > c18Timeout {
		var o uint64
		if err == nil {
			o = 1
		}
		verifObserve("reply_passed", o)
	}
}
