package nebula

import "net/netip"

// C37 — remote address lists are deduplicated and deterministically ordered.
//
// The real RemoteList setters (learned / reported, two owners, IPv4 and IPv6), BlockRemote and Rebuild
// (unlockedCollect + unlockedSort) run on symbolic addresses; the result is compared with the statement: exactly
// the input set minus blocked entries, no duplicates, ordered by (not preferred, is IPv4, private IPv4, address, port)
// (DESIGN B.7a). sort.Slice (reflection-based) is replaced by an insertion sort driven by the real comparator.

// c37SortSlice stands in for sort.Slice on []netip.AddrPort.
func c37SortSlice(x any, less func(i, j int) bool) {
	s := x.([]netip.AddrPort)
	for i := 1; i < len(s); i++ {
		for j := i; j > 0 && less(j, j-1); j-- {
			s[j], s[j-1] = s[j-1], s[j]
		}
	}
}

func c37V4(name string) *V4AddrPort {
	return &V4AddrPort{Addr: verifU32(name), Port: uint32(verifU16(name + "_port"))}
}

func c37Key(a netip.AddrPort, pref []netip.Prefix) (k [3]bool) {
	k[0] = !isPreferred(a.Addr(), pref)
	k[1] = a.Addr().Is4()
	k[2] = a.Addr().Is4() && a.Addr().IsPrivate()
	return
}

func c37LessEq(a, b netip.AddrPort, pref []netip.Prefix) bool {
	ka, kb := c37Key(a, pref), c37Key(b, pref)
	for i := 0; i < 3; i++ {
		if ka[i] != kb[i] {
			return !ka[i] // false sorts first
		}
	}
	if c := a.Addr().Compare(b.Addr()); c != 0 {
		return c < 0
	}
	return a.Port() <= b.Port()
}

func VerifC37Rebuild() {
	owner1 := netip.AddrFrom4([4]byte{10, 0, 0, 1})
	owner2 := netip.AddrFrom4([4]byte{10, 0, 0, 2})
	peer := netip.AddrFrom4([4]byte{10, 0, 0, 9})
	r := NewRemoteList([]netip.Addr{peer}, nil)
	all := func(netip.Addr, *V4AddrPort) bool { return true }
	all6 := func(netip.Addr, *V6AddrPort) bool { return true }

	a, b, c := c37V4("a"), c37V4("b"), c37V4("c")
	d := &V6AddrPort{Hi: verifU64("d_hi"), Lo: verifU64("d_lo"), Port: uint32(verifU16("d_port"))}
	d2 := &V6AddrPort{Hi: verifU64("d2_hi"), Lo: verifU64("d2_lo"), Port: uint32(verifU16("d2_port"))}
	if verifCase("shape") != 3 {
		r.unlockedSetLearnedV4(owner1, a)
	}
	_ = c
	_ = all6
	_ = d
	switch verifCase("shape") {
	case 0: // a learned, the same address reported again by a second owner (duplicate)
		r.unlockedSetV4(owner2, peer, []*V4AddrPort{{Addr: a.Addr, Port: a.Port}}, all)
		b = a
	case 3: // d and d2 reported (two arbitrary IPv6 entries)
		r.unlockedSetV6(owner2, peer, []*V6AddrPort{d, d2}, all6)
	case 2: // a learned, b reported (two arbitrary IPv4 entries)
		r.unlockedSetV4(owner2, peer, []*V4AddrPort{b}, all)
	default: // a learned (IPv4), d reported (IPv6)
		r.unlockedSetV6(owner2, peer, []*V6AddrPort{d}, all6)
	}
	in := [4]netip.AddrPort{protoV4AddrPortToNetAddrPort(a), protoV4AddrPortToNetAddrPort(b), protoV4AddrPortToNetAddrPort(a), protoV4AddrPortToNetAddrPort(a)}
	if verifCase("shape") == 1 {
		in[1] = protoV6AddrPortToNetAddrPort(d)
	}
	if verifCase("shape") == 3 {
		in[0], in[1] = protoV6AddrPortToNetAddrPort(d), protoV6AddrPortToNetAddrPort(d2)
		in[2], in[3] = in[0], in[0]
	}

	blocked := netip.AddrPortFrom(netip.AddrFrom4([4]byte{verifU8("bad0"), verifU8("bad1"), verifU8("bad2"), verifU8("bad3")}), verifU16("bad_port"))
	hasBlock := verifBool("has_blocked")
	if hasBlock {
		r.BlockRemote(ViaSender{UdpAddr: blocked})
	}
	var pref []netip.Prefix
	if verifBool("has_preferred") {
		pref = []netip.Prefix{netip.PrefixFrom(netip.AddrFrom4([4]byte{verifU8("pref0"), 0, 0, 0}), 8)}
	}
	r.Rebuild(pref)
	out := r.addrs

	verifAssert(len(out) <= 4, "no more candidates than inputs")
	for i := 0; i < 4; i++ {
		if i < len(out) {
			isInput := out[i] == in[0] || out[i] == in[1] || out[i] == in[2] || out[i] == in[3]
			verifAssert(isInput, "every candidate was learned or reported")
			verifAssert(!hasBlock || out[i] != blocked, "blocked remotes are not candidates")
			for j := i + 1; j < 4; j++ {
				if j < len(out) {
					verifAssert(out[i] != out[j], "no duplicates")
				}
			}
			if i+1 < len(out) {
				verifAssert(c37LessEq(out[i], out[i+1], pref), "ordered: preferred first, then IPv6, public IPv4, private IPv4, each by address then port")
			}
		}
	}
	for k := 0; k < 4; k++ {
		if !(hasBlock && in[k] == blocked) {
			found := false
			for i := 0; i < 4; i++ {
				if i < len(out) && out[i] == in[k] {
					found = true
				}
			}
			verifAssert(found, "every learned or reported address that is not blocked is a candidate")
		}
	}
	verifObserve("n", uint64(len(out)))
}
