package nebula

import "time"

// C33 — timer wheel fires each item once, on time.
//
// A bounded history of symbolic operations (advance by any gap / add with any timeout / purge) on the real
// TimerWheel[int], then the wheel is advanced to an arbitrary final instant and drained. Ghost records per item:
// when it was added, with which timeout, when and how often it was returned.

const c33Tick = 10

type c33Rec struct {
	added   bool
	tAdd    int64
	need    int64 // timeout rounded up to the tick, capped at the span
	returns int
}

func c33Need(d, span int64) int64 {
	if d < c33Tick {
		d = c33Tick
	}
	if d > span {
		d = span
	}
	return (d + c33Tick - 1) / c33Tick * c33Tick
}

func c33Purge(tw *TimerWheel[int], items *[3]c33Rec, now int64) {
	v, ok := tw.Purge()
	if !ok {
		return
	}
	verifAssert(v >= 0 && v < 3 && items[v].added, "a returned item was added before")
	if v < 0 || v >= 3 {
		return
	}
	items[v].returns++
	verifAssert(items[v].returns == 1, "an item is returned at most once")
	verifAssert(now >= items[v].tAdd+items[v].need, "an item is not returned before its timeout rounded up to the tick")
}

func VerifC33History() {
	spanTicks := verifCase("span_ticks")
	steps := verifCase("steps")
	span := int64(spanTicks) * c33Tick
	tw := NewTimerWheel[int](c33Tick, time.Duration(span))
	now := int64(1000)
	tw.Advance(time.Unix(0, now))
	var items [3]c33Rec
	nadd := 0
	kindN := [6]string{"kind0", "kind1", "kind2", "kind3", "kind4", "kind5"}
	gapN := [6]string{"gap0", "gap1", "gap2", "gap3", "gap4", "gap5"}
	toN := [6]string{"timeout0", "timeout1", "timeout2", "timeout3", "timeout4", "timeout5"}
	for s := 0; s < steps; s++ {
		switch verifInt(kindN[s], 0, 2) {
		case 0: // advance by an arbitrary gap (including more than a full revolution)
			now += int64(verifInt(gapN[s], 0, 200))
			tw.Advance(time.Unix(0, now))
		case 1: // add with an arbitrary timeout (below the tick, above the span, zero, negative)
			if nadd < 3 {
				d := int64(verifInt(toN[s], -5, 100))
				tw.Add(nadd, time.Duration(d))
				items[nadd] = c33Rec{added: true, tAdd: now, need: c33Need(d, span)}
				nadd++
			}
		default:
			c33Purge(tw, &items, now)
		}
	}
	// final phase: advance to an arbitrary later instant, then drain
	now += int64(verifInt("final_gap", 0, 200))
	tw.Advance(time.Unix(0, now))
	for k := 0; k < 4; k++ {
		c33Purge(tw, &items, now)
	}
	for i := 0; i < 3; i++ {
		if items[i].added {
			verifAssert(items[i].returns <= 1, "exactly once: never twice")
			if now >= items[i].tAdd+items[i].need+2*c33Tick {
				verifAssert(items[i].returns == 1, "an item is returned no later than two ticks after its rounded timeout once the wheel has been advanced that far")
			}
		} else {
			verifAssert(items[i].returns == 0, "nothing that was not added is returned")
		}
	}
	_, more := tw.Purge()
	verifAssert(!more, "the drain returned everything that had expired")
	verifObserve("nadd", uint64(nadd))
	verifObserve("ret0", uint64(items[0].returns))
}
