package cert

import (
	"net/netip"
	"time"
)

// C01 — certificate acceptance equals the documented trust rule.
//
// The real CAPool (VerifyCertificate / verify / VerifyCachedCertificate / GetCAForCert / IsBlocklisted /
// CheckCAConstraints) runs on plain-data certificates whose fields are symbolic; the signature check's verdict and
// the fingerprints are free inputs (signature unforgeability is not decided here, see C02).

func c01T(name string) time.Time { return time.Unix(int64(verifInt(name, 0, 60)), 0) }

func c01Groups(name string) ([]string, [2]bool) {
	switch verifInt(name, 0, 3) {
	case 0:
		return nil, [2]bool{}
	case 1:
		return []string{"g1"}, [2]bool{true, false}
	case 2:
		return []string{"g2"}, [2]bool{false, true}
	}
	return []string{"g1", "g2"}, [2]bool{true, true}
}

func c01Prefix(name string) netip.Prefix {
	b := verifBytes(name, 2)
	return netip.PrefixFrom(netip.AddrFrom4([4]byte{10, b[0], b[1], 1}), 8+verifInt(name+"_bits", 0, 24))
}

func c01Within(ca []netip.Prefix, leaf []netip.Prefix) bool {
	if len(ca) == 0 {
		return true
	}
	for _, l := range leaf {
		ok := false
		for _, c := range ca {
			if c.Contains(l.Addr()) && c.Bits() <= l.Bits() {
				ok = true
			}
		}
		if !ok {
			return false
		}
	}
	return true
}

func VerifC01Accept() {
	// pool: two CAs
	mk := func(i string, fp string) (*vCert, [2]bool) {
		g, gm := c01Groups("ca" + i + "_groups")
		ca := &vCert{name: "ca" + i, isCA: true, fp: fp, sigOK: true, nb: c01T("ca" + i + "_nb"), na: c01T("ca" + i + "_na"), groups: g}
		if verifBool("ca" + i + "_curve_p256") {
			ca.curve = Curve_P256
		}
		if verifBool("ca" + i + "_has_net") {
			ca.networks = []netip.Prefix{c01Prefix("ca" + i + "_net")}
		}
		if verifBool("ca" + i + "_has_unsafe") {
			ca.unsafe = []netip.Prefix{c01Prefix("ca" + i + "_unsafe")}
		}
		return ca, gm
	}
	ca1, gm1 := mk("1", "fp-ca1")
	ca2, gm2 := mk("2", "fp-ca2")
	pool := NewCAPool()
	pool.CAs["fp-ca1"] = &CachedCertificate{Certificate: ca1, Fingerprint: "fp-ca1", InvertedGroups: map[string]struct{}{}}
	pool.CAs["fp-ca2"] = &CachedCertificate{Certificate: ca2, Fingerprint: "fp-ca2", InvertedGroups: map[string]struct{}{}}

	// leaf
	lg, lgm := c01Groups("leaf_groups")
	leaf := &vCert{name: "leaf", fp: "fp-leaf", nb: c01T("leaf_nb"), na: c01T("leaf_na"), groups: lg, sigOK: verifBool("signature_verifies")}
	which := verifInt("issuer", 0, 3)
	switch which {
	case 0:
		leaf.issuer = "fp-ca1"
	case 1:
		leaf.issuer = "fp-ca2"
	case 2:
		leaf.issuer = "fp-unknown"
	}
	leaf.networks = []netip.Prefix{c01Prefix("leaf_net")}
	if verifBool("leaf_has_unsafe") {
		leaf.unsafe = []netip.Prefix{c01Prefix("leaf_unsafe")}
	}
	blocked := verifBool("leaf_blocklisted")
	if blocked {
		pool.BlocklistFingerprint("fp-leaf")
	}
	if verifBool("other_blocklisted") {
		pool.BlocklistFingerprint("fp-other")
	}
	t := c01T("t")

	cc, err := pool.VerifyCertificate(t, leaf)

	// ---- the trust rule, transcribed from the statement ----
	var ca *vCert
	var gm [2]bool
	switch which {
	case 0:
		ca, gm = ca1, gm1
	case 1:
		ca, gm = ca2, gm2
	}
	want := false
	if !blocked && ca != nil {
		valid := func(c *vCert) bool { return !t.Before(c.nb) && !t.After(c.na) } // inclusive at both boundary seconds
		groupsOK := len(ca.groups) == 0 || ((!lgm[0] || gm[0]) && (!lgm[1] || gm[1]))
		want = ca.curve == leaf.curve && valid(ca) && valid(leaf) && leaf.sigOK &&
			!leaf.na.After(ca.na) && !leaf.nb.Before(ca.nb) && groupsOK &&
			c01Within(ca.networks, leaf.networks) && c01Within(ca.unsafe, leaf.unsafe)
	}
	verifAssert((err == nil) == want, "a certificate is accepted exactly when the trust rule holds")
	if err != nil {
		verifAssert(cc == nil, "no cached certificate for a rejected one")
		verifObserve("accepted", 0)
		return
	}
	verifObserve("accepted", 1)
	verifAssert(cc.Certificate == Certificate(leaf) && cc.Fingerprint == "fp-leaf", "the cached form is the verified certificate")
	_, has1 := cc.InvertedGroups["g1"]
	_, has2 := cc.InvertedGroups["g2"]
	verifAssert(has1 == lgm[0] && has2 == lgm[1], "the cached group set equals the certificate's groups")

	// ---- re-check of the accepted certificate against a later trust state / time ----
	t2 := c01T("t2")
	if verifBool("later_blocklisted") {
		pool.BlocklistFingerprint("fp-leaf")
		blocked = true
	}
	removed := verifBool("ca_removed")
	if removed {
		delete(pool.CAs, leaf.issuer)
	}
	replaced := verifBool("ca_replaced")
	if replaced && !removed {
		other := &vCert{name: "imposter", isCA: true, fp: "fp-imposter", sigOK: true, nb: ca.nb, na: ca.na, curve: ca.curve}
		pool.CAs[leaf.issuer] = &CachedCertificate{Certificate: other, Fingerprint: "fp-imposter", InvertedGroups: map[string]struct{}{}}
	}
	err2 := pool.VerifyCachedCertificate(t2, cc)
	valid2 := func(c *vCert) bool { return !t2.Before(c.nb) && !t2.After(c.na) }
	want2 := !blocked && !removed && !replaced && valid2(ca) && valid2(leaf)
	verifAssert((err2 == nil) == want2, "re-checking an accepted certificate: accepted iff not blocklisted, the same CA is still trusted, and both are valid at that time")
	if !removed && !replaced {
		_, err3 := pool.VerifyCertificate(t2, leaf)
		verifAssert((err3 == nil) == (err2 == nil), "the re-check gives the same verdict as a full check under the same trust state and time")
	}
}

// VerifC01Expired: the real certificate types' validity test is inclusive at both boundary seconds.
func VerifC01Expired() {
	nb, na, t := c01T("nb"), c01T("na"), c01T("t")
	want := t.Before(nb) || t.After(na)
	v2 := &certificateV2{details: detailsV2{notBefore: nb, notAfter: na}}
	v1 := &certificateV1{details: detailsV1{notBefore: nb, notAfter: na}}
	verifAssert(v2.Expired(t) == want, "v2: expired exactly outside [NotBefore, NotAfter]")
	verifAssert(v1.Expired(t) == want, "v1: expired exactly outside [NotBefore, NotAfter]")
}
