package cpupick

// C46 — CPU pinning choices are valid and stable.

var c46CNames = [...]string{"cpu0", "cpu1", "cpu2", "cpu3", "cpu4"}
var c46NNames = [...]string{"node0", "node1", "node2", "node3", "node4"}
var c46GNames = [...]string{"core0", "core1", "core2", "core3", "core4"}

func c46Index(s []int, v int) int {
	for i := 0; i < len(s); i++ {
		if s[i] == v {
			return i
		}
	}
	return -1
}

// VerifC46Arrange: arrange on every candidate set of n CPUs (ids 0..7), every NUMA/SMT topology over them, every
// routine count and every hash value.
func VerifC46Arrange() {
	n := verifCase("n")
	cands := make([]int, n)
	topo := topology{nodeOf: map[int]int{}, coreOf: map[int]int{}, zeroCore: verifInt("zero_core", -1, 3)}
	nodes := make([]int, n)
	cores := make([]int, n)
	for i := 0; i < n; i++ {
		cands[i] = verifInt(c46CNames[i], 0, 7)
		for j := 0; j < i; j++ {
			verifAssume(cands[j] != cands[i])
		}
		nodes[i] = verifInt(c46NNames[i], 0, 1)
		cores[i] = verifInt(c46GNames[i], 0, 3)
		topo.nodeOf[cands[i]] = nodes[i]
		topo.coreOf[cands[i]] = cores[i]
		// coreGroups: when CPU 0 is a candidate and its core is known, that is its own core group
		verifAssume(cands[i] != 0 || topo.zeroCore < 0 || cores[i] == topo.zeroCore)
	}
	routines := verifInt("routines", 1, 5)
	h := verifU64("hash")
	in := append([]int(nil), cands...)
	out := arrange(cands, topo, routines, h)

	for i := 0; i < n; i++ {
		verifAssert(cands[i] == in[i], "arrange does not modify its input")
	}
	verifAssert(len(out) <= n, "the pin list is no longer than the candidate set")
	// only candidates, no duplicates
	for i := 0; i < n; i++ {
		if i < len(out) {
			verifAssert(c46Index(in, out[i]) >= 0, "the pin list contains only candidate CPUs")
			for j := 0; j < i; j++ {
				verifAssert(out[j] != out[i], "the pin list has no duplicates")
			}
		}
	}
	// the chosen NUMA node: every candidate of one node holding >= routines candidates, or everything when none does
	var cnt [2]int
	for i := 0; i < n; i++ {
		cnt[nodes[i]]++
	}
	anyEligible := cnt[0] >= routines || cnt[1] >= routines
	if !anyEligible {
		verifAssert(len(out) == n, "with no NUMA node large enough, every candidate is listed")
	} else {
		verifAssert(len(out) > 0, "an eligible node yields a non-empty list")
		chosen := nodes[c46Index(in, out[0])]
		verifAssert(cnt[chosen] >= routines, "the chosen NUMA node holds enough candidates for every routine")
		verifAssert(len(out) == cnt[chosen], "every candidate of the chosen node is listed, and nothing else")
		for i := 0; i < n; i++ {
			if i < len(out) {
				verifAssert(nodes[c46Index(in, out[i])] == chosen, "the list stays on the chosen NUMA node")
			}
		}
	}
	// CPU 0's physical core last, CPU 0 itself at the very end
	seenTail := false
	for i := 0; i < n; i++ {
		if i < len(out) {
			c := out[i]
			onZero := c == 0 || (topo.zeroCore >= 0 && cores[c46Index(in, c)] == topo.zeroCore)
			if seenTail {
				verifAssert(onZero, "CPUs on CPU 0's physical core come after every other CPU")
			}
			if onZero {
				seenTail = true
			}
			if c == 0 {
				verifAssert(i == len(out)-1, "CPU 0 itself is the very last entry")
			}
		}
	}
	// one thread per physical core before any sibling (among the CPUs not on CPU 0's core)
	firstSibling := -1
	for i := 0; i < n; i++ {
		if i < len(out) {
			c := out[i]
			onZero := c == 0 || (topo.zeroCore >= 0 && cores[c46Index(in, c)] == topo.zeroCore)
			if onZero {
				continue
			}
			dup := false
			for j := 0; j < i; j++ {
				if cores[c46Index(in, out[j])] == cores[c46Index(in, c)] {
					dup = true
				}
			}
			if dup && firstSibling < 0 {
				firstSibling = i
			}
			if !dup {
				verifAssert(firstSibling < 0, "every physical core is used once before any SMT sibling is listed")
			}
		}
	}
	// stable: the same inputs give the same list
	out2 := arrange(in, topo, routines, h)
	verifAssert(len(out2) == len(out), "the list is the same for the same key and topology")
	for i := 0; i < n; i++ {
		if i < len(out) && i < len(out2) {
			verifAssert(out[i] == out2[i], "the list is the same for the same key and topology")
		}
	}
	verifObserve("len", uint64(len(out)))
	if len(out) > 0 {
		verifObserve("first", uint64(out[0]))
	}
}

// VerifC46Pick: the enough-for-everyone guard.
func VerifC46Pick() {
	na, np := verifInt("n_allowed", 0, 6), verifInt("n_perf", 0, 6)
	verifAssume(np <= na)
	allowed, perf := make([]int, na), make([]int, np)
	routines := verifInt("routines", 0, 8)
	got := pickCandidates(allowed, perf, routines)
	if np >= routines {
		verifAssert(len(got) == np, "a performance filter leaving enough CPUs for every routine is used")
	} else {
		verifAssert(len(got) == na, "a performance filter leaving fewer CPUs than routines is discarded")
	}
	verifObserve("len", uint64(len(got)))
}

// VerifC46Stable: the same key and topology give the same list on every call. Candidates sit on two NUMA nodes
// that can both hold every routine, so the node choice is exercised; the call is repeated (natively Go randomises
// map iteration per range statement; in the encoding every range over a map may run in either direction).
func VerifC46Stable() {
	c0, c1, c2, c3 := verifInt("cpu0", 1, 3), verifInt("cpu1", 4, 6), verifInt("cpu2", 7, 9), verifInt("cpu3", 10, 12)
	cands := []int{c0, c1, c2, c3}
	topo := topology{nodeOf: map[int]int{c0: 0, c1: 1, c2: 0, c3: 1}, coreOf: map[int]int{c0: 0, c1: 1, c2: 2, c3: 3}, zeroCore: -1}
	routines := verifInt("routines", 1, 2)
	h := verifU64("hash")
	first := arrange(append([]int(nil), cands...), topo, routines, h)
	verifAssert(len(first) == 2, "one NUMA node of two candidates is chosen")
	for r := 0; r < 6; r++ {
		again := arrange(append([]int(nil), cands...), topo, routines, h)
		verifAssert(len(again) == len(first), "the list is the same for the same key and topology")
		for i := 0; i < 2; i++ {
			if i < len(first) && i < len(again) {
				verifAssert(again[i] == first[i], "the list is the same for the same key and topology")
			}
		}
	}
	verifObserve("len", uint64(len(first)))
}
