package nebula

import (
	"net/netip"

	"github.com/gaissmai/bart"
)

func newInsideTable(p netip.Prefix, al *AllowList) *bart.Table[*AllowList] {
	t := new(bart.Table[*AllowList])
	t.Insert(p, al)
	return t
}
