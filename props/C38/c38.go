package nebula

import "net/netip"

// C38 — allow lists use longest-prefix semantics with a safe default.
//
// The real newAllowList builds the list from a config map whose CIDR keys come from a menu (case split) and whose
// values are symbolic (true / false / "yes" / "no"); every address of both families (and IPv4-mapped ones) is then
// looked up with the real Allow and compared with the rule of the statement.

type c38Rule struct {
	cidr string
	v    bool
}

func c38Value(name string) (any, bool) {
	switch verifInt(name, 0, 3) {
	case 0:
		return true, true
	case 1:
		return false, false
	case 2:
		return "yes", true
	}
	return "no", false
}

func c38Addr(kind int) netip.Addr {
	switch kind {
	case 0:
		b := verifBytes("addr4", 4)
		return netip.AddrFrom4([4]byte{b[0], b[1], b[2], b[3]})
	case 1:
		b := verifBytes("addr6", 16)
		var a [16]byte
		copy(a[:], b)
		return netip.AddrFrom16(a)
	}
	b := verifBytes("addr4m", 4) // IPv4-mapped IPv6 form of an IPv4 address
	return netip.AddrFrom16([16]byte{10: 0xff, 11: 0xff, 12: b[0], 13: b[1], 14: b[2], 15: b[3]})
}

func VerifC38Allow() {
	var cidrs []string
	switch verifCase("cidrs") {
	case 0:
		cidrs = []string{"10.0.0.0/8", "10.1.0.0/16", "10.1.2.0/24"}
	case 1:
		cidrs = []string{"0.0.0.0/0", "10.0.0.0/8", "fd00::/8"}
	case 2:
		cidrs = []string{"fd00::/8", "fd00:1::/32", "::/0"}
	case 3:
		cidrs = []string{"10.0.0.0/8", "fd00::/8"}
	case 5:
		cidrs = []string{"::ffff:0.0.0.0/96", "10.0.0.0/8"} // the IPv4 default written in IPv4-mapped form
	default:
		cidrs = []string{"::ffff:10.0.0.0/104", "192.168.0.0/16"} // an IPv4 rule written in IPv4-mapped form
	}
	names := [3]string{"v0", "v1", "v2"}
	raw := map[string]any{}
	var rules []c38Rule
	for i, c := range cidrs {
		val, b := c38Value(names[i])
		raw[c] = val
		rules = append(rules, c38Rule{c, b})
	}
	if verifKnown("C38-mapped-prefix-ignored", verifCase("cidrs") == 4) {
		return
	}
	al, err := newAllowList("test", raw, nil)

	// the rule of the statement, per family
	want := func(is4 bool) (mixedNoDefault bool, def bool) {
		first, all, have, hasDef := false, true, false, false
		for _, r := range rules {
			p := netip.MustParsePrefix(r.cidr)
			a := p.Addr().Unmap()
			if a.Is4() != is4 {
				continue
			}
			if !have {
				first, have = r.v, true
			} else if r.v != first {
				all = false
			}
			bits := p.Bits()
			if p.Addr().Is4In6() {
				bits -= 96
			}
			if bits == 0 {
				hasDef = true
			}
		}
		if hasDef {
			return false, false
		}
		if !all {
			return true, false
		}
		if !have {
			return false, true // a family with no rule at all is allowed (nothing was denied, nothing singled out)
		}
		return false, !first
	}
	mixed4, def4 := want(true)
	mixed6, def6 := want(false)
	if mixed4 || mixed6 {
		verifAssert(err != nil, "a family that mixes allow and deny without a default is refused")
		return
	}
	verifAssert(err == nil && al != nil, "a consistent allow list loads")
	if err != nil {
		return
	}
	kind := verifInt("addr_kind", 0, 2)
	addr := c38Addr(kind)
	got := al.Allow(addr)
	// most specific matching rule, else the family default
	lookup := addr.Unmap() // IPv4-mapped addresses are treated as IPv4
	best, bestBits, found := false, -1, false
	for _, r := range rules {
		p := netip.MustParsePrefix(r.cidr)
		bits := p.Bits()
		pa := p.Addr()
		if pa.Is4In6() {
			pa, bits = pa.Unmap(), bits-96
		}
		pp := netip.PrefixFrom(pa, bits)
		if pp.Contains(lookup) && bits > bestBits {
			best, bestBits, found = r.v, bits, true
		}
	}
	expect := best
	if !found {
		if lookup.Is4() {
			expect = def4
		} else {
			expect = def6
		}
	}
	// looked-up addresses in IPv4-mapped form are outside the claim: nebula unmaps underlay addresses where they
	// enter (udp listener, lighthouse decoding) and Allow does not unmap again
	if !addr.Is4In6() {
		verifAssert(got == expect, "an address gets the value of its most specific matching CIDR, else the family default")
	}
	var o uint64
	if got {
		o = 1
	}
	verifObserve("allowed", o)
}

// VerifC38Remote: the per-overlay-range list applies in addition to the global one.
func VerifC38Remote() {
	gv, _ := c38Value("global_v")
	global, err := newAllowList("g", map[string]any{"10.0.0.0/8": gv}, nil)
	iv, _ := c38Value("inside_v")
	inside, err2 := newAllowList("i", map[string]any{"10.5.0.0/16": iv}, nil)
	verifAssume(err == nil && err2 == nil)
	ral := &RemoteAllowList{AllowList: global}
	if verifBool("has_inside") {
		ral.insideAllowLists = newInsideTable(netip.MustParsePrefix("192.168.0.0/16"), inside)
	}
	vb, ub := verifBytes("vpn", 4), verifBytes("udp", 4)
	vpn := netip.AddrFrom4([4]byte{vb[0], vb[1], vb[2], vb[3]})
	udp := netip.AddrFrom4([4]byte{ub[0], ub[1], ub[2], ub[3]})
	got := ral.Allow(vpn, udp)
	wantG := global.Allow(udp)
	wantI := true
	if ral.insideAllowLists != nil && netip.MustParsePrefix("192.168.0.0/16").Contains(vpn) {
		wantI = inside.Allow(udp)
	}
	verifAssert(got == (wantG && wantI), "a remote is allowed only if both the global list and the list of the peer's overlay range allow it")
	verifAssert(ral.AllowAll([]netip.Addr{vpn}, udp) == got, "AllowAll over one address agrees with Allow")
	verifAssert(ral.AllowUnknownVpnAddr(udp) == wantG, "unknown peers are judged by the global list")
}
