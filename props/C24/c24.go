package virtio

// C24 — superpacket segmentation yields valid original segments (structure; checksum VALUES are outside the claim).
//
// The real SegmentTCP / SegmentUDP on a superpacket whose every byte is symbolic (IPv4 without options or IPv6, TCP
// without options or UDP), for each payload length and segment size of the case split. checksum.Checksum is replaced
// by zero: the checksum fields the segmenter writes are not examined.

type c24Seg struct {
	b []byte
}

func c24Run(tcp, v6 bool) {
	l3 := 20
	if v6 {
		l3 = 40
	}
	l4 := 20
	if !tcp {
		l4 = udpHeaderLen
	}
	hdr := l3 + l4
	pay := verifCase("paylen")
	gso := verifCase("gso")
	pkt := verifBytes("pkt", hdr+pay)
	if v6 {
		verifAssume(pkt[0]>>4 == 6)
	} else {
		verifAssume(pkt[0] == 0x45) // IPv4, IHL 5
	}
	if tcp {
		verifAssume(pkt[l3+tcpDataOffOff]>>4 == 5) // no TCP options
	}
	orig := append([]byte(nil), pkt...)
	var segs []c24Seg
	yield := func(seg []byte) error {
		segs = append(segs, c24Seg{append([]byte(nil), seg...)}) // the buffer is consumed destructively: copy
		return nil
	}
	var err error
	if tcp {
		err = SegmentTCP(pkt, uint16(hdr), uint16(l3), uint16(gso), yield)
	} else {
		err = SegmentUDP(pkt, uint16(hdr), uint16(l3), uint16(gso), yield)
	}
	verifAssert(err == nil, "a well-formed superpacket is segmented")
	want := (pay + gso - 1) / gso
	if want == 0 {
		want = 1 // header-only packet: one segment
	}
	verifAssert(len(segs) == want, "the number of segments is ceil(payload / segment size), one for a header-only packet")
	off := 0
	origSeq := uint32(orig[l3+4])<<24 | uint32(orig[l3+5])<<16 | uint32(orig[l3+6])<<8 | uint32(orig[l3+7])
	origID := uint16(orig[4])<<8 | uint16(orig[5])
	for i := 0; i < 12; i++ {
		if i >= len(segs) {
			break
		}
		s := segs[i].b
		verifAssert(len(s) >= hdr && len(s)-hdr <= gso, "each segment carries the full header and at most one segment size of payload")
		n := len(s) - hdr
		if i < len(segs)-1 {
			verifAssert(n == gso, "every segment but the last is full")
		}
		for k := 0; k < 12; k++ {
			if k < n {
				verifAssert(off+k < pay && s[hdr+k] == orig[hdr+off+k], "payloads concatenate to the original payload, in order")
			}
		}
		// lengths
		if v6 {
			verifAssert(int(s[4])<<8|int(s[5]) == l4+n, "IPv6 payload length = transport header + segment payload")
		} else {
			verifAssert(int(s[2])<<8|int(s[3]) == hdr+n, "IPv4 total length = headers + segment payload")
			verifAssert(uint16(s[4])<<8|uint16(s[5]) == origID+uint16(i), "IPv4 IDs increment per segment (wrapping)")
		}
		if tcp {
			seq := uint32(s[l3+4])<<24 | uint32(s[l3+5])<<16 | uint32(s[l3+6])<<8 | uint32(s[l3+7])
			verifAssert(seq == origSeq+uint32(off), "TCP sequence numbers advance by the payload already sent (wrapping)")
			fl, of := s[l3+tcpFlagsOff], orig[l3+tcpFlagsOff]
			expect := of
			if i != 0 {
				expect &^= 0x80 // CWR only on the first
			}
			if i != len(segs)-1 {
				expect &^= 0x09 // FIN and PSH only on the last
			}
			verifAssert(fl == expect, "CWR only on the first segment, FIN and PSH only on the last, other flags unchanged")
		} else {
			verifAssert(int(s[l3+udpLengthOff])<<8|int(s[l3+udpLengthOff+1]) == udpHeaderLen+n, "UDP length = header + segment payload")
		}
		// every other header byte is the original's
		for k := 0; k < hdr; k++ {
			variable := false
			if v6 {
				variable = k == 4 || k == 5
			} else {
				variable = k == 2 || k == 3 || k == 4 || k == 5 || k == 10 || k == 11
			}
			if tcp {
				variable = variable || (k >= l3+4 && k < l3+8) || k == l3+tcpFlagsOff || k == l3+tcpChecksumOff || k == l3+tcpChecksumOff+1
			} else {
				variable = variable || (k >= l3+udpLengthOff && k < l3+8)
			}
			if !variable {
				verifAssert(s[k] == orig[k], "header fields the segmenter does not own are copied unchanged")
			}
		}
		off += n
	}
	verifAssert(off == pay, "the segments carry the whole payload")
	verifObserve("segments", uint64(len(segs)))
}

func VerifC24TCP4() { c24Run(true, false) }
func VerifC24TCP6() { c24Run(true, true) }
func VerifC24UDP4() { c24Run(false, false) }
func VerifC24UDP6() { c24Run(false, true) }

// ---- checksum values, with few symbolic words ----

// c24RFC1071 stands in for checksum.Checksum (assembly on amd64): the folded, not complemented ones-complement sum
// of big-endian 16-bit words starting from `initial` — the RFC 1071 definition, written out.
func c24RFC1071(buf []byte, initial uint16) uint16 {
	sum := uint32(initial)
	for i := 0; i+1 < len(buf); i += 2 {
		sum += uint32(buf[i])<<8 | uint32(buf[i+1])
	}
	if len(buf)%2 == 1 {
		sum += uint32(buf[len(buf)-1]) << 8
	}
	sum = (sum & 0xffff) + (sum >> 16)
	sum = (sum & 0xffff) + (sum >> 16)
	return uint16(sum)
}

// VerifC24Checksums: a TCP/IPv4 superpacket whose bytes are fixed except the IPv4 ID and the TCP sequence number
// (three symbolic 16-bit words: within what the solvers decide for ones-complement sums): every segment's IPv4 header
// checksum and TCP checksum verify.
func VerifC24Checksums() {
	pay := verifCase("paylen")
	gso := verifCase("gso")
	hdr := 40
	pkt := make([]byte, hdr+pay)
	copy(pkt, []byte{0x45, 0x10, 0, 0, 0, 0, 0x40, 0, 64, 6, 0, 0, 10, 1, 2, 3, 10, 9, 8, 7, // IPv4
		0x30, 0x39, 0x01, 0xbb, 0, 0, 0, 0, 0x11, 0x22, 0x33, 0x44, 0x50, 0x99, 0x20, 0, 0, 0, 0, 0}) // TCP: ports, seq, ack, off=5, flags CWR|ACK|PSH|FIN
	id := verifU16("ip_id")
	seq := verifU32("tcp_seq")
	pkt[4], pkt[5] = byte(id>>8), byte(id)
	pkt[24], pkt[25], pkt[26], pkt[27] = byte(seq>>24), byte(seq>>16), byte(seq>>8), byte(seq)
	for i := 0; i < pay; i++ {
		pkt[hdr+i] = byte(0x61 + i)
	}
	var segs []c24Seg
	err := SegmentTCP(pkt, uint16(hdr), 20, uint16(gso), func(seg []byte) error {
		segs = append(segs, c24Seg{append([]byte(nil), seg...)})
		return nil
	})
	verifAssert(err == nil && len(segs) == (pay+gso-1)/gso, "segmented")
	for i := 0; i < 6; i++ {
		if i >= len(segs) {
			break
		}
		s := segs[i].b
		verifAssert(c24RFC1071(s[:20], 0) == 0xffff, "every segment's IPv4 header checksum verifies")
		l4 := len(s) - 20
		pseudo := []byte{s[12], s[13], s[14], s[15], s[16], s[17], s[18], s[19], 0, 6, byte(l4 >> 8), byte(l4)}
		verifAssert(c24RFC1071(s[20:], c24RFC1071(pseudo, 0)) == 0xffff, "every segment's TCP checksum verifies over the pseudo-header, header and payload")
	}
	verifObserve("segments", uint64(len(segs)))
}
