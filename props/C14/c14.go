package nebula

import (
	"sync"
	"log/slog"
	"net/netip"

	"github.com/gaissmai/bart"
	"github.com/slackhq/nebula/header"
)

// C14 — unauthenticated packets have no effect.
//
// The real readOutsidePackets / handleOutsideRelayPacket process ONE arbitrary datagram (every length 0..56, all
// contents) from an arbitrary sender against a hostmap with a direct tunnel (index 7) and a relay tunnel (relay
// index 9, terminal). Every effectful callee is replaced by a recording stub; the AEAD is scripted. Claim: for the
// encrypted message types any effect implies that the AEAD of the tunnel selected by the packet's index accepted
// this packet with the packet's counter.

var c14Log = slog.New(slog.DiscardHandler)

type c14Events struct {
	roam, delivered, lighthouse, testReply, closed, control, forwarded int
	handshake, recvErr, sentRecvErr                                   int
	host                                                              *HostInfo
}

var c14Ev c14Events

func c14Roam(f *Interface, h *HostInfo, via ViaSender)                               { c14Ev.roam++; c14Ev.host = h }
func c14Deliver(f *Interface, h *HostInfo, ctr uint64, out []byte, rxc *rxContext) { c14Ev.delivered++; c14Ev.host = h }
func c14LH(lhh *LightHouseHandler, from netip.AddrPort, addrs []netip.Addr, p []byte, w EncWriter) {
	c14Ev.lighthouse++
}
func c14Send(f *Interface, t header.MessageType, st header.MessageSubType, ci *ConnectionState, h *HostInfo, p, nb, out []byte) {
	c14Ev.testReply++
}
func c14Close(f *Interface, h *HostInfo)                                { c14Ev.closed++; c14Ev.host = h }
func c14Control(rm *relayManager, h *HostInfo, p []byte, f *Interface) { c14Ev.control++ }
func c14SendVia(f *Interface, via *HostInfo, relay *Relay, ad, nb, out []byte, nocopy bool, q int) {
	c14Ev.forwarded++
}
func c14Handshake(hm *HandshakeManager, via ViaSender, packet []byte, h *header.H) { c14Ev.handshake++ }
func c14RecvErr(f *Interface, addr netip.AddrPort, h *header.H)                     { c14Ev.recvErr++ }
func c14MaybeRecvErr(f *Interface, endpoint netip.AddrPort, index uint32)           { c14Ev.sentRecvErr++ }

func VerifC14Outside() {
	c14Ev = c14Events{}
	myNets := new(bart.Lite)
	myNets.Insert(netip.MustParsePrefix("10.1.0.0/16"))
	hm := newHostMap(c14Log)
	direct := &vCipher{okScript: []bool{verifBool("direct_aead1"), verifBool("direct_aead2")}}
	relayC := &vCipher{okScript: []bool{verifBool("relay_aead1")}}
	hd := &HostInfo{localIndexId: 7, remoteIndexId: 70, vpnAddrs: []netip.Addr{netip.AddrFrom4([4]byte{10, 1, 0, 2})},
		ConnectionState: &ConnectionState{window: NewBits(64), dKey: direct}}
	hr := &HostInfo{localIndexId: 8, remoteIndexId: 80, vpnAddrs: []netip.Addr{netip.AddrFrom4([4]byte{10, 1, 0, 3})},
		ConnectionState: &ConnectionState{window: NewBits(64), dKey: relayC}}
	hr.relayState.relayForByIdx = map[uint32]*Relay{9: {Type: TerminalType, State: Established, LocalIndex: 9, RemoteIndex: 90, PeerAddr: netip.AddrFrom4([4]byte{10, 1, 0, 2})}}
	hr.relayState.relayForByAddr = map[netip.Addr]*Relay{}
	hm.Indexes[7], hm.Indexes[8] = hd, hr
	hm.Relays[9] = hr
	f := &Interface{l: c14Log, hostMap: hm, myVpnNetworksTable: myNets, messageMetrics: newMessageMetrics(),
		connectionManager: &connectionManager{relayUsed: map[uint32]struct{}{}, relayUsedLock: &sync.RWMutex{}}, handshakeManager: &HandshakeManager{}, relayManager: &relayManager{}}
	rxc := &rxContext{scratch: make([]byte, 128), nb: make([]byte, 12), h: &header.H{}, hostmapCache: map[uint32]*HostInfo{}, lhh: &LightHouseHandler{}}

	n := verifInt("len", 0, 56)
	pkt := verifBytes("packet", 56)[:n]
	sb := verifBytes("sender", 4)
	via := ViaSender{UdpAddr: netip.AddrPortFrom(netip.AddrFrom4([4]byte{sb[0], sb[1], sb[2], sb[3]}), verifU16("sender_port"))}

	f.readOutsidePackets(via, pkt, rxc)

	e := c14Ev
	effects := e.roam + e.delivered + e.lighthouse + e.testReply + e.closed + e.control + e.forwarded
	in7, in8 := hd.in.Load(), hr.in.Load()
	if n < 16 {
		verifAssert(effects+e.handshake+e.recvErr+e.sentRecvErr == 0 && !in7 && !in8, "a datagram shorter than a header has no effect at all")
		return
	}
	var h header.H
	_ = h.Parse(pkt)
	unencrypted := h.Type == header.Handshake || h.Type == header.RecvError // separately gated, outside this claim
	// an authenticated relayed packet carries an inner nebula packet that is processed recursively under the same
	// rules (it may legitimately be a handshake): the type-specific clauses below speak about non-relayed packets
	relayAuth := h.Type == header.Message && h.Subtype == header.MessageRelay && h.RemoteIndex == 9 &&
		len(relayC.decN) >= 1 && relayC.decN[0] == h.MessageCounter && relayC.okScript[0]
	if !unencrypted && !relayAuth {
		verifAssert(e.handshake == 0 && e.recvErr == 0, "only handshake / recv_error typed packets reach their unauthenticated handlers")
		if effects > 0 || in7 || in8 {
			// which tunnel's key must have authenticated it?
			isRelay := h.Type == header.Message && h.Subtype == header.MessageRelay
			if isRelay {
				verifAssert(h.RemoteIndex == 9 && len(relayC.decN) >= 1 && relayC.decN[0] == h.MessageCounter && relayC.okScript[0],
					"a relayed packet has an effect only if the relay tunnel's AEAD accepted it under its counter")
			} else {
				verifAssert(h.RemoteIndex == 7 || h.RemoteIndex == 8, "an effect needs an existing tunnel index")
				if h.RemoteIndex == 7 {
					verifAssert(len(direct.decN) >= 1 && direct.decN[0] == h.MessageCounter && direct.okScript[0],
						"a packet has an effect only if the AEAD of the tunnel it names accepted it under its counter")
					verifAssert(!in8, "only the authenticated tunnel is marked alive")
				}
			}
		}
		verifAssert(e.closed == 0 || h.Type == header.CloseTunnel || (h.Type == header.Message && h.Subtype == header.MessageRelay), "a tunnel is closed only by an (authenticated) close message")
		verifAssert(e.delivered == 0 || (h.Type == header.Message), "only message packets reach the tun path")
		if h.Version != header.Version || !h.IsValidSubType() {
			verifAssert(effects == 0 && !in7 && !in8 && e.sentRecvErr == 0, "wrong version or an undocumented type/subtype has no effect")
		}
	}
	if !via.IsRelayed && myNets.Contains(via.UdpAddr.Addr()) && h.Version == header.Version {
		verifAssert(effects+e.handshake+e.recvErr+e.sentRecvErr == 0, "datagrams whose underlay source lies inside the overlay network are ignored")
	}
	verifObserve("effects", uint64(effects))
}
