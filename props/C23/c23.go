package batch

import (
	"github.com/slackhq/nebula/overlay/tio"
)

// C23 (UDP lane) — receive coalescing is transparent to the tun device.
//
// The real UDPCoalescer (commitStaged -> parse -> seed / canAppend / appendPayload -> Flush / flushSlot) on a batch
// of three IPv4 UDP datagrams whose header fields and payload bytes are symbolic. Everything written to the tun
// writer is recorded; every offloaded write is segmented the way the kernel does (one segment per payload iovec of
// gso-size bytes, headers from the superpacket header) and the result compared with the batch.

type c23Out struct {
	hdr []byte // IP + UDP header as written
	pay []byte
	gso bool
}

type c23Writer struct {
	outs []c23Out
	bad  bool // an offloaded write with a geometry the kernel refuses
}

func (w *c23Writer) Write(p []byte) (int, error) {
	q := append([]byte(nil), p...)
	w.outs = append(w.outs, c23Out{hdr: q[:28], pay: q[28:]})
	return len(p), nil
}
func (w *c23Writer) Capabilities() tio.Capabilities { return tio.Capabilities{TSO: true, USO: true} }
func (w *c23Writer) WriteGSO(hdr []byte, transportHdr []byte, pays [][]byte, proto tio.GSOProto) error {
	h := append(append([]byte(nil), hdr...), transportHdr...)
	if proto != tio.GSOProtoUDP || len(hdr) != 20 || len(transportHdr) != 8 || len(pays) < 2 || len(pays) > 64 {
		w.bad = true
	}
	gso := 0
	if len(pays) > 0 {
		gso = len(pays[0])
	}
	total := 0
	for i, p := range pays {
		// kernel UDP GSO: every segment but the last exactly gso_size, the last 1..gso_size
		if len(p) == 0 || len(p) > gso || (i < len(pays)-1 && len(p) != gso) {
			w.bad = true
		}
		total += len(p)
		w.outs = append(w.outs, c23Out{hdr: h, pay: append([]byte(nil), p...), gso: true})
	}
	// the superpacket header must state the total lengths
	if int(h[2])<<8|int(h[3]) != 28+total || int(h[24])<<8|int(h[25]) != 8+total {
		w.bad = true
	}
	return nil
}

var c23HdrNames = [...]string{"hdr0", "hdr1", "hdr2"}
var c23PayNames = [...]string{"pay0", "pay1", "pay2"}
var c23LenNames = [...]string{"len0", "len1", "len2"}

// c23Packet builds datagram i: IPv4 IHL 5, arbitrary TOS / ID / flags+fragment-offset high byte / TTL, source address and
// source port from 2-entry menus (up to 4 flows), payload of the case's length whose first byte is the tag i.
func c23Packet(i int) []byte {
	n := verifCase(c23LenNames[i])
	h := verifBytes(c23HdrNames[i], 7) // TOS, ID hi, ID lo, flags/frag hi, TTL, src low (0/1), sport low (0/1)
	p := verifBytes(c23PayNames[i], n)
	verifAssume(h[5] <= 1 && h[6] <= 1)
	pkt := make([]byte, 28+n)
	pkt[0], pkt[1] = 0x45, h[0]
	pkt[2], pkt[3] = 0, byte(28+n)
	pkt[4], pkt[5], pkt[6] = h[1], h[2], h[3]
	pkt[8], pkt[9] = h[4], 17
	pkt[10], pkt[11] = 0x12, 0x34 // header checksum: not examined
	pkt[12], pkt[13], pkt[14], pkt[15] = 10, 0, 0, h[5]
	pkt[16], pkt[17], pkt[18], pkt[19] = 10, 0, 0, 9
	pkt[20], pkt[21], pkt[22], pkt[23] = 0, h[6], 0, 53
	pkt[24], pkt[25] = 0, byte(8+n)
	pkt[26], pkt[27] = 0x56, 0x78
	copy(pkt[28:], p)
	pkt[28] = byte(0xA0 + i) // tag
	return pkt
}

func VerifC23UDP() {
	w := &c23Writer{}
	c := NewUDPCoalescer(w)
	verifAssert(c != nil, "a USO-capable writer gets a UDP coalescer")
	n := verifCase("packets")
	var in [3][]byte
	var orig [3][]byte
	for i := 0; i < n; i++ {
		in[i] = c23Packet(i)
		orig[i] = append([]byte(nil), in[i]...)
	}
	for i := 0; i < n; i++ {
		frag := (in[i][6]&0x3f) != 0 || in[i][7] != 0 // MF or offset: the dispatcher's fragAny
		verifAssert(c.commitStaged(stagedPacket{pkt: in[i], proto: 17, fragAny: frag, ipHdrLen: 20}) == nil, "commit succeeds")
	}
	verifAssert(c.Flush() == nil, "flush succeeds")

	verifAssert(!w.bad, "every offloaded write has the geometry the kernel accepts")
	verifAssert(len(w.outs) == n, "what reaches the tun is exactly the batch: nothing lost, nothing duplicated")
	var pos [3]int
	for i := 0; i < 3; i++ {
		pos[i] = -1
	}
	for k := 0; k < n; k++ {
		if k >= len(w.outs) {
			break
		}
		o := w.outs[k]
		verifAssert(len(o.pay) > 0 && o.pay[0] >= 0xA0 && int(o.pay[0]) < 0xA0+n, "every datagram written is one of the batch")
		i := int(o.pay[0] - 0xA0)
		verifAssert(pos[i] == -1, "no datagram is written twice")
		pos[i] = k
		p := orig[i]
		verifAssert(len(o.pay) == len(p)-28, "payload length unchanged")
		for j := 0; j < 3; j++ {
			if j < len(o.pay) {
				verifAssert(o.pay[j] == p[28+j], "payload bytes unchanged")
			}
		}
		for j := 0; j < 28; j++ {
			rewritten := j == 2 || j == 3 || j == 10 || j == 11 || j == 24 || j == 25 || j == 26 || j == 27 // lengths and checksums
			if o.gso && (j == 4 || j == 5) {
				continue // IPv4 ID: checked below
			}
			if !rewritten || !o.gso {
				verifAssert(o.hdr[j] == p[j], "header fields other than lengths, checksums and meaningless IPv4 IDs are unchanged")
			}
		}
	}
	// IPv4 IDs: a coalesced datagram may get a different ID only when the ID carries no meaning (DF set);
	// with DF clear the kernel's re-stamp seed_id+n must reproduce the original
	seg := 0
	for k := 0; k < n; k++ {
		if k >= len(w.outs) {
			break
		}
		o := w.outs[k]
		if !o.gso {
			seg = 0
			continue
		}
		if k > 0 && (!w.outs[k-1].gso || &w.outs[k-1].hdr[0] != &o.hdr[0]) {
			seg = 0
		}
		i := int(o.pay[0] - 0xA0)
		if orig[i][6]&0x40 == 0 {
			seedID := uint16(o.hdr[4])<<8 | uint16(o.hdr[5])
			verifAssert(uint16(orig[i][4])<<8|uint16(orig[i][5]) == seedID+uint16(seg), "with DF clear, the kernel's sequential re-stamp reproduces the original IPv4 ID")
		}
		seg++
	}
	// per-flow order
	for i := 0; i < n; i++ {
		for j := i + 1; j < n; j++ {
			same := orig[i][15] == orig[j][15] && orig[i][21] == orig[j][21]
			if same {
				verifAssert(pos[i] < pos[j], "datagrams of one flow reach the tun in the order they were committed")
			}
		}
	}
	var coalesced uint64
	for k := 0; k < len(w.outs) && k < n; k++ {
		if w.outs[k].gso {
			coalesced++
		}
	}
	verifObserve("coalesced", coalesced)
}
