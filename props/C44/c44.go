package nebula

import (
	"log/slog"
	"net"
	"net/netip"

	"github.com/gaissmai/bart"
	"github.com/miekg/dns"
	"github.com/slackhq/nebula/cert"
)

// C44 — the DNS responder answers only from authenticated data.
//
// The real dnsServer.Add (as called by unlockedAddHostInfo after a completed handshake), Query, parseQuery and
// isSelfNebulaOrLocalhost; dns.NewRR (the zone-file text parser) is replaced by a function returning a marker record.

var c44Log = slog.New(slog.DiscardHandler)

type c44Addr struct{ s string }

func (a *c44Addr) Network() string { return "udp" }
func (a *c44Addr) String() string  { return a.s }

type c44Writer struct{ remote string }

func (w *c44Writer) LocalAddr() net.Addr         { return &c44Addr{"10.0.0.1:53"} }
func (w *c44Writer) RemoteAddr() net.Addr        { return &c44Addr{w.remote} }
func (w *c44Writer) WriteMsg(*dns.Msg) error     { return nil }
func (w *c44Writer) Write([]byte) (int, error)   { return 0, nil }
func (w *c44Writer) Close() error                { return nil }
func (w *c44Writer) TsigStatus() error           { return nil }
func (w *c44Writer) TsigTimersOnly(bool)         {}
func (w *c44Writer) Hijack()                     {}
func (w *c44Writer) Network() string             { return "udp" }

// c44NewRR replaces dns.NewRR: every record the responder builds becomes one marker record.
func c44NewRR(s string) (dns.RR, error) { return &dns.NULL{}, nil }

var c44Names = [...]string{"alice.", "Alice.", "ALICE.", "bob.", "Bob.", "nobody.", "10.0.0.77.", "10.0.0.1.", "10.0.0.99."}

// per name: is it known (case-insensitively), has A, has AAAA
func c44Known(i int) (known, a, aaaa bool) {
	switch {
	case i <= 2:
		return true, true, false // alice: IPv4 only
	case i <= 4:
		return true, true, true // bob: both families
	}
	return false, false, false
}

func c44World(enabled bool) *dnsServer {
	self := &vCert{name: "lh", ver: cert.Version1, networks: []netip.Prefix{netip.MustParsePrefix("10.0.0.1/24")}}
	tbl := new(bart.Lite)
	tbl.Insert(netip.MustParsePrefix("10.0.0.1/32"))
	p := &PKI{l: c44Log}
	p.cs.Store(&CertState{v1Cert: self, initiatingVersion: cert.Version1, myVpnAddrsTable: tbl, myVpnAddrs: []netip.Addr{netip.MustParseAddr("10.0.0.1")}})
	hm := newHostMap(c44Log)
	ds := &dnsServer{l: c44Log, dnsMap4: map[string]netip.Addr{}, dnsMap6: map[string]netip.Addr{}, hostMap: hm, pki: p}
	ds.enabled.Store(enabled)
	f := &Interface{dnsServer: ds}
	// two completed handshakes: Alice (one IPv4 address, mixed-case certificate name), bob (IPv4 and IPv6)
	alice := &HostInfo{localIndexId: 1, remoteIndexId: 11, vpnAddrs: []netip.Addr{netip.MustParseAddr("10.0.0.77")},
		ConnectionState: &ConnectionState{peerCert: vCached(&vCert{name: "Alice", ver: cert.Version1})}}
	bob := &HostInfo{localIndexId: 2, remoteIndexId: 12, vpnAddrs: []netip.Addr{netip.MustParseAddr("10.0.0.78"), netip.MustParseAddr("fd00::78")},
		ConnectionState: &ConnectionState{peerCert: vCached(&vCert{name: "bob", ver: cert.Version2})}}
	hm.unlockedAddHostInfo(alice, f)
	hm.unlockedAddHostInfo(bob, f)
	return ds
}

func VerifC44Query() {
	enabled := verifBool("serve_dns_enabled")
	ds := c44World(enabled)
	ni := verifCase("name")
	name := c44Names[ni]
	known, hasA, hasAAAA := c44Known(ni)
	if !enabled {
		known, hasA, hasAAAA = false, false, false // nothing is recorded while the responder is off
	}
	qt := [...]uint16{dns.TypeA, dns.TypeAAAA, dns.TypeTXT, dns.TypeMX}[verifInt("qtype", 0, 3)]

	// Query
	ip, exists := ds.Query(qt, name)
	verifAssert(exists == known, "a name exists exactly when a handshaken peer's certificate carries it (case-insensitively)")
	switch qt {
	case dns.TypeA:
		verifAssert(ip.IsValid() == hasA, "an A answer exactly for names with an IPv4 overlay address")
		if ip.IsValid() {
			verifAssert(ip == netip.MustParseAddr("10.0.0.77") || ip == netip.MustParseAddr("10.0.0.78"), "the address is the peer's certified overlay address")
		}
	case dns.TypeAAAA:
		verifAssert(ip.IsValid() == hasAAAA, "an AAAA answer exactly for names with an IPv6 overlay address")
		if ip.IsValid() {
			verifAssert(ip == netip.MustParseAddr("fd00::78"), "the address is the peer's certified overlay address")
		}
	default:
		verifAssert(!ip.IsValid(), "other record types get no address")
	}

	// parseQuery: one or two questions
	client := [...]string{"127.0.0.1:5353", "10.0.0.1:4000", "10.0.0.77:4000", "8.8.8.8:53", "[::1]:53"}[verifCase("client")]
	trusted := client == "127.0.0.1:5353" || client == "10.0.0.1:4000" || client == "[::1]:53"
	m := new(dns.Msg)
	m.Question = []dns.Question{{Name: name, Qtype: qt, Qclass: dns.ClassINET}}
	two := verifBool("second_question")
	if two {
		m.Question = append(m.Question, dns.Question{Name: "bob.", Qtype: dns.TypeA, Qclass: dns.ClassINET})
	}
	ds.parseQuery(m, &c44Writer{remote: client})
	want := 0
	switch qt {
	case dns.TypeA:
		if hasA {
			want++
		}
	case dns.TypeAAAA:
		if hasAAAA {
			want++
		}
	case dns.TypeTXT:
		// certificate details: only for trusted clients, only for an overlay address we hold a certificate for
		if trusted && (name == "10.0.0.77." || name == "10.0.0.1.") {
			want++
		}
	}
	stopped := qt == dns.TypeTXT && !trusted // an untrusted TXT question ends the processing of the message
	if two && !stopped && enabled {
		want++
	}
	verifAssert(len(m.Answer) == want, "exactly the records backed by handshaken certificates (or our own) are answered; certificate details only to loopback or own-overlay clients")
	anyExists := (known && (qt == dns.TypeA || qt == dns.TypeAAAA)) || (two && !stopped && enabled)
	if !stopped {
		verifAssert((m.Rcode == dns.RcodeNameError) == (want == 0 && !anyExists), "NXDOMAIN only when nothing was answered and no queried name exists; a known name lacking the record type gets an empty NOERROR answer")
	}
	verifObserve("answers", uint64(len(m.Answer)))
	verifObserve("rcode", uint64(m.Rcode))
}
