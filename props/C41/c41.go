package overlay

import (
	"log/slog"
	"net/netip"

	"github.com/slackhq/nebula/config"
	"github.com/slackhq/nebula/routing"
)

// C41 — route configuration parses exactly.
//
// The real parseRoutes / parseUnsafeRoutes on a one-entry list whose numeric fields are given either as an integer
// (any value) or as a decimal string of 1..4 digits (any digits), with routes inside / outside the overlay network.

var c41Log = slog.New(slog.DiscardHandler)

var c41Nets = []netip.Prefix{netip.MustParsePrefix("10.1.0.0/16")}

// c41Number draws a numeric field: form 0 = Go int (any 64-bit value), form 1 = decimal string of 1..4 digits,
// form 2 = a YAML boolean (a type the field does not accept).
// It returns the configuration value and the number it states.
func c41Number(name string, form int) (any, int) {
	if form == 2 {
		return verifBool(name + "_bool"), -1 // another YAML type: never well formed (-1 is refused by every field)
	}
	if form == 0 {
		v := int(int64(verifU64(name + "_int")))
		return v, v
	}
	n := verifInt(name+"_digits", 1, 4)
	d := verifBytes(name+"_str", 4)
	val := 0
	for i := 0; i < 4; i++ {
		if i < n {
			verifAssume(d[i] >= '0' && d[i] <= '9')
			val = val*10 + int(d[i]-'0')
		}
	}
	return string(d[:n]), val
}

func c41Config(key string, entry map[string]any) *config.C {
	c := config.NewC(c41Log)
	c.Settings["tun"] = map[string]any{key: []any{entry}}
	return c
}

// VerifC41Routes: tun.routes (mtu mandatory, route inside the overlay networks).
func VerifC41Routes() {
	mtuCfg, mtu := c41Number("mtu", verifCase("mtu_form"))
	inside := verifCase("inside") == 1 // case split: the two route literals stay concrete strings
	route := "10.1.7.0/24"
	if !inside {
		route = "10.2.0.0/24"
	}
	routes, err := parseRoutes(c41Config("routes", map[string]any{"mtu": mtuCfg, "route": route}), c41Nets)
	ok := mtu >= 500 && inside
	verifAssert((err == nil) == ok, "a route loads exactly when its mtu is at least 500 and it lies inside the overlay networks")
	if err == nil {
		verifAssert(len(routes) == 1 && routes[0].MTU == mtu && routes[0].Cidr == netip.MustParsePrefix(route) && routes[0].Install, "the loaded route carries exactly the stated values")
	}
	var o uint64
	if err == nil {
		o = 1
	}
	verifObserve("loaded", o)
}

// VerifC41Unsafe: tun.unsafe_routes (mtu optional, metric, route outside the overlay networks, one gateway).
func VerifC41Unsafe() {
	entry := map[string]any{"via": "10.1.0.5"}
	hasMtu, hasMetric := verifBool("has_mtu"), verifBool("has_metric")
	mtu, metric := 0, 0
	if hasMtu {
		entry["mtu"], mtu = c41Number("mtu", verifCase("mtu_form"))
	}
	if hasMetric {
		entry["metric"], metric = c41Number("metric", verifCase("metric_form"))
	}
	inside := verifCase("inside") == 1 // case split: the two route literals stay concrete strings
	route := "192.168.0.0/24"
	if inside {
		route = "10.1.7.0/24"
	}
	entry["route"] = route
	routes, err := parseUnsafeRoutes(c41Config("unsafe_routes", entry), c41Nets)
	ok := (mtu == 0 || mtu >= 500) && metric >= 0 && metric <= 2147483647 && !inside
	verifAssert((err == nil) == ok, "an unsafe route loads exactly when mtu is 0 or at least 500, the metric is in 0..2^31-1 and it lies outside the overlay networks")
	if err == nil {
		verifAssert(len(routes) == 1 && routes[0].MTU == mtu, "the mtu takes exactly the stated value")
		verifAssert(routes[0].Metric == metric, "the metric takes exactly the stated value, whether given as an integer or as a decimal string")
		verifAssert(routes[0].Cidr == netip.MustParsePrefix(route) && routes[0].Install && len(routes[0].Via) == 1 && routes[0].Via[0] == routing.NewGateway(netip.MustParseAddr("10.1.0.5"), 1), "route, gateway and default weight as stated")
	}
	var o uint64
	if err == nil {
		o = 1
	}
	verifObserve("loaded", o)
}

// VerifC41Weight: a weighted gateway list; the weight as an integer or as a decimal string.
func VerifC41Weight() {
	wCfg, w := c41Number("weight", verifCase("weight_form"))
	entry := map[string]any{"route": "192.168.0.0/24", "via": []any{map[string]any{"gateway": "10.1.0.5", "weight": wCfg}}}
	routes, err := parseUnsafeRoutes(c41Config("unsafe_routes", entry), c41Nets)
	ok := w >= 1 && w <= 2147483647
	verifAssert((err == nil) == ok, "a gateway weight in 1..2^31-1 loads, anything else is refused")
	if err == nil {
		verifAssert(len(routes) == 1 && len(routes[0].Via) == 1 && routes[0].Via[0] == routing.NewGateway(netip.MustParseAddr("10.1.0.5"), w), "the gateway weight takes exactly the stated value")
	}
	var o uint64
	if err == nil {
		o = 1
	}
	verifObserve("loaded", o)
}
