package nebula

import (
	"log/slog"
	"net/netip"
	"time"

	"github.com/rcrowley/go-metrics"
	"github.com/slackhq/nebula/handshake"
	"github.com/slackhq/nebula/header"
	"github.com/slackhq/nebula/udp"
)

// C32 — pending handshakes retry, give up, and release queued packets correctly.
//
// The real handleOutbound (one timer tick of a pending handshake, arbitrary attempt counter and retry setting) and
// cachePacket (arbitrary queue length around the cap). Release of the queue on completion is decided in C09's
// initiator unit.

var c32Log = slog.New(slog.DiscardHandler)

type c32Conn struct {
	udp.NoopConn
	to []netip.AddrPort
}

func (c *c32Conn) WriteTo(b []byte, addr netip.AddrPort) error {
	c.to = append(c.to, addr)
	return nil
}

// c32SortSlice stands in for sort.Slice on []netip.AddrPort (reflection-based swapper).
func c32SortSlice(x any, less func(i, j int) bool) {
	s := x.([]netip.AddrPort)
	for i := 1; i < len(s); i++ {
		for j := i; j > 0 && less(j, j-1); j-- {
			s[j], s[j-1] = s[j-1], s[j]
		}
	}
}

type c32Armed struct {
	addr  netip.Addr
	delay time.Duration
}

var c32Timer []c32Armed

func c32TimerAdd(w *LockingTimerWheel[netip.Addr], v netip.Addr, d time.Duration) *TimeoutItem[netip.Addr] {
	c32Timer = append(c32Timer, c32Armed{v, d})
	return nil
}

func VerifC32Outbound() {
	c32Timer = nil
	peer := netip.AddrFrom4([4]byte{10, 0, 0, 2})
	conn := &c32Conn{}
	main := newHostMap(c32Log)
	main.preferredRanges.Store(&[]netip.Prefix{})
	retries := int64(verifInt("retries", 1, 20))
	interval := time.Duration(verifInt("try_interval_ms", 1, 1000)) * time.Millisecond
	lh := &LightHouse{l: c32Log, addrMap: map[netip.Addr]*RemoteList{}, amLighthouse: true} // a lighthouse never queries others (QueryServer returns at once)
	f := &Interface{l: c32Log, hostMap: main, lightHouse: lh, relayManager: &relayManager{l: c32Log, hostmap: main}}
	hm := &HandshakeManager{l: c32Log, f: f, mainHostMap: main, lightHouse: lh, outside: conn, vpnIps: map[netip.Addr]*HandshakeHostInfo{}, indexes: map[uint32]*HandshakeHostInfo{},
		config: HandshakeConfig{tryInterval: interval, retries: retries, messageMetrics: &MessageMetrics{}}, messageMetrics: &MessageMetrics{},
		metricTimedOut: metrics.NilCounter{}, metricInitiated: metrics.NilCounter{}}
	rl := NewRemoteList([]netip.Addr{peer}, nil)
	nRemotes := verifCase("remotes")
	var reported []*V4AddrPort
	for i := 0; i < 2; i++ {
		if i < nRemotes {
			reported = append(reported, &V4AddrPort{Addr: 0xc0000201 + uint32(i), Port: 4242})
		}
	}
	rl.unlockedSetV4(peer, peer, reported, func(netip.Addr, *V4AddrPort) bool { return true })
	hi := &HostInfo{localIndexId: 7, vpnAddrs: []netip.Addr{peer}, remotes: rl, HandshakePacket: map[uint8][]byte{handshakePacketStage0: {1, 2, 3}}}
	counter := int64(verifInt("attempts_so_far", 0, 25))
	hh := &HandshakeHostInfo{hostinfo: hi, machine: &handshake.Machine{}, startTime: time.Now(), ready: true, counter: counter}
	hh.packetStore = []*cachedPacket{{header.Message, 0, nil, []byte{9}}}
	hm.vpnIps[peer] = hh
	hm.indexes[7] = hh
	lhTriggered := verifBool("lighthouse_triggered")
	if lhTriggered && verifBool("remotes_unchanged") {
		hh.lastRemotes = rl.CopyAddrs(nil)
	}
	unchanged := lhTriggered && len(hh.lastRemotes) == nRemotes && (nRemotes > 0 || hh.lastRemotes != nil)
	_ = unchanged

	hm.handleOutbound(peer, lhTriggered)

	_, stillAddr := hm.vpnIps[peer]
	_, stillIdx := hm.indexes[7]
	if counter >= retries {
		verifAssert(!stillAddr && !stillIdx, "after the configured number of attempts the pending handshake state is removed")
		verifAssert(len(conn.to) == 0 && len(c32Timer) == 0, "an abandoned handshake sends nothing and is not re-armed")
		verifObserve("gave_up", 1)
		return
	}
	verifObserve("gave_up", 0)
	verifAssert(stillAddr && stillIdx && hm.vpnIps[peer] == hh, "before the limit the pending handshake is kept")
	verifAssert(hh.counter == counter+1, "every attempt is counted once")
	verifAssert(len(conn.to) == 0 || len(conn.to) == nRemotes, "the first message is retransmitted to every known address of the peer, once each")
	for i := 0; i < 2; i++ {
		if i < len(conn.to) {
			verifAssert(conn.to[i].Port() == 4242, "retransmissions go to the peer's known addresses")
		}
	}
	if !lhTriggered {
		verifAssert(len(conn.to) == nRemotes, "a timer tick retransmits")
		verifAssert(len(c32Timer) == 1 && c32Timer[0].addr == peer && c32Timer[0].delay == interval*time.Duration(counter+1), "the next attempt is scheduled after interval x attempt number (linear growth)")
	} else {
		verifAssert(len(c32Timer) == 0, "a lighthouse-triggered attempt leaves the running timer alone")
	}
}

// VerifC32Cache: the per-handshake packet queue holds at most 100 packets and stores copies.
func VerifC32Cache() {
	n := verifInt("queued", 97, 100)
	hh := &HandshakeHostInfo{hostinfo: &HostInfo{localIndexId: 7, vpnAddrs: []netip.Addr{netip.AddrFrom4([4]byte{10, 0, 0, 2})}}}
	hh.packetStore = make([]*cachedPacket, n, 128)
	m := &cachedPacketMetrics{sent: metrics.NilCounter{}, dropped: metrics.NilCounter{}}
	pkt := []byte{verifU8("b0"), verifU8("b1")}
	want0 := pkt[0]
	for k := 0; k < 3; k++ {
		hh.cachePacket(c32Log, header.Message, 0, pkt, nil, m)
	}
	pkt[0] ^= 0xff // the caller reuses its buffer
	exp := n + 3
	if exp > maxCachedPackets {
		exp = maxCachedPackets
	}
	verifAssert(len(hh.packetStore) == exp && len(hh.packetStore) <= 100, "at most 100 packets are queued per pending handshake; earlier ones are kept, later ones dropped")
	if n < 100 {
		cp := hh.packetStore[n]
		verifAssert(cp != nil && len(cp.packet) == 2 && cp.packet[0] == want0 && cp.messageType == header.Message, "a queued packet is a private copy of what was offered")
	}
	verifObserve("len", uint64(len(hh.packetStore)))
}
