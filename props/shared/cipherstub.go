package nebula

import "errors"

// vCipher is a scripted noiseutil.CipherState: the AEAD verdicts are taken from a pre-drawn script and every
// call is recorded (nonce, order). Real cryptography is never executed by the symbolic engine.
type vCipher struct {
	okScript []bool   // verdict of the k-th Decrypt call
	encFail  []bool   // k-th Encrypt call fails
	decN     []uint64 // nonces seen by DecryptDanger
	encN     []uint64 // nonces seen by EncryptDanger
	hook     func()   // runs inside DecryptDanger: models what another goroutine does while this one is outside its critical sections
}

var errVCipher = errors.New("vCipher: authentication failed")

func (c *vCipher) EncryptDanger(out, ad, plaintext []byte, n uint64, nb []byte) ([]byte, error) {
	k := len(c.encN)
	c.encN = append(c.encN, n)
	if k < len(c.encFail) && c.encFail[k] {
		return nil, errVCipher
	}
	return out, nil
}

func (c *vCipher) DecryptDanger(out, ad, ciphertext []byte, n uint64, nb []byte) ([]byte, error) {
	k := len(c.decN)
	c.decN = append(c.decN, n)
	if c.hook != nil {
		c.hook()
	}
	if k < len(c.okScript) && c.okScript[k] {
		return out, nil
	}
	return nil, errVCipher
}

func (c *vCipher) Overhead() int { return 16 }
