package handshake

import "google.golang.org/protobuf/encoding/protowire"

// C08 — handshake payload encoding is lossless and wire-compatible.

// ---- reference proto3 reader, written from handshake.proto and the protobuf encoding guide ----
// (groups, which proto3 schemas cannot contain, make the reference give up: refSkip)

const (
	c08OK = iota
	c08Bad
	c08Skip
)

// c08Varint reads a base-128 varint: at most 10 bytes, the 10th may only carry one bit.
func c08Varint(b []byte) (v uint64, n int, ok bool) {
	for i := 0; i < 10; i++ {
		if i >= len(b) {
			return 0, 0, false
		}
		c := b[i]
		if i == 9 && c > 1 {
			return 0, 0, false
		}
		v |= uint64(c&0x7f) << (7 * uint(i))
		if c < 0x80 {
			return v, i + 1, true
		}
	}
	return 0, 0, false
}

type c08Field struct {
	num    uint64
	typ    uint8
	val    uint64 // varint value
	lo, hi int    // bytes payload range
	n      int    // total encoded size
	st     int
}

func c08ReadField(b []byte) (f c08Field) {
	tag, n, ok := c08Varint(b)
	if !ok {
		f.st = c08Bad
		return
	}
	f.num, f.typ = tag>>3, uint8(tag&7)
	if f.num < 1 || f.num > 1<<31-1 { // the Go protobuf runtimes (protowire, gogo) accept field numbers up to MaxInt32
		f.st = c08Bad
		return
	}
	rest := b[n:]
	switch f.typ {
	case 0:
		v, m, ok := c08Varint(rest)
		if !ok {
			f.st = c08Bad
			return
		}
		f.val, f.n = v, n+m
	case 1:
		if len(rest) < 8 {
			f.st = c08Bad
			return
		}
		f.n = n + 8
	case 5:
		if len(rest) < 4 {
			f.st = c08Bad
			return
		}
		f.n = n + 4
	case 2:
		l, m, ok := c08Varint(rest)
		if !ok || l > uint64(len(rest)-m) {
			f.st = c08Bad
			return
		}
		f.lo, f.hi, f.n = n+m, n+m+int(l), n+m+int(l)
	case 3, 4:
		f.st = c08Skip
	default:
		f.st = c08Bad
	}
	return
}

type c08Ref struct {
	st             int
	strictReject   bool // well-formed proto3, but a known field has the wrong wire type or overflows uint32
	certLo, certHi int  // cert bytes as a range of the input (-1: absent)
	init, resp, cv uint32
	time           uint64
}

func c08Details(b []byte, base int, r *c08Ref) {
	for k := 0; k < 5 && len(b) > 0; k++ {
		f := c08ReadField(b)
		if f.st != c08OK {
			if r.st == c08OK {
				r.st = f.st
			}
			return
		}
		want := uint8(0)
		switch f.num {
		case 1:
			want = 2
		case 2, 3, 5, 8:
			want = 0
		default:
			want = 255
		}
		if want != 255 && f.typ != want {
			r.strictReject = true
			return
		}
		switch f.num {
		case 1:
			r.certLo, r.certHi = base+f.lo, base+f.hi
		case 2, 3, 8:
			if f.val > 0xffffffff {
				r.strictReject = true
				return
			}
			switch f.num {
			case 2:
				r.init = uint32(f.val)
			case 3:
				r.resp = uint32(f.val)
			default:
				r.cv = uint32(f.val)
			}
		case 5:
			r.time = f.val
		}
		base += f.n
		b = b[f.n:]
	}
}

func c08Reference(b []byte) (r c08Ref) {
	r.certLo, r.certHi = -1, -1
	base := 0
	for k := 0; k < 5 && len(b) > 0; k++ {
		f := c08ReadField(b)
		if f.st != c08OK {
			r.st = f.st
			return
		}
		if f.num == 1 && f.typ == 2 {
			c08Details(b[f.lo:f.hi], base+f.lo, &r)
			if r.st != c08OK || r.strictReject {
				return
			}
		}
		base += f.n
		b = b[f.n:]
	}
	return
}

// c08Class draws a value whose varint encoding has exactly k bytes (k = 0: the value 0, field omitted).
// The case split over k keeps every buffer position concrete; each case covers all values of its class.
func c08Class(name string, k int, max uint64) uint64 {
	if k == 0 {
		return 0
	}
	lo := uint64(1)
	if k > 1 {
		lo = uint64(1) << (7 * uint(k-1))
	}
	hi := uint64(1)<<(7*uint(k)) - 1
	if k >= 10 || hi > max {
		hi = max
	}
	if hi <= 1<<62 {
		return uint64(verifInt(name, int(lo), int(hi)))
	}
	return verifU64(name) | lo // top class of a 64-bit value: every value with bit 63 set (lo = 2^63)
}

// VerifC08RoundTrip: Unmarshal(Marshal(p)) == p; the schema reference reads the same fields.
func VerifC08RoundTrip() {
	const maxCert = 4
	cl := verifCase("certlen")
	cert := verifBytes("cert", maxCert)[:cl]
	p := Payload{Cert: cert,
		InitiatorIndex: uint32(c08Class("init", verifCase("ki"), 0xffffffff)),
		ResponderIndex: uint32(c08Class("resp", verifCase("kr"), 0xffffffff)),
		Time:           c08Class("time", verifCase("kt"), ^uint64(0)),
		CertVersion:    uint32(c08Class("cv", verifCase("kv"), 0xffffffff))}
	enc := MarshalPayload(nil, p)
	got, err := UnmarshalPayload(enc)
	verifAssert(err == nil, "an encoded payload decodes")
	verifAssert(got.InitiatorIndex == p.InitiatorIndex && got.ResponderIndex == p.ResponderIndex, "indexes round-trip")
	verifAssert(got.Time == p.Time && got.CertVersion == p.CertVersion, "time and certificate version round-trip")
	verifAssert(len(got.Cert) == cl, "certificate length round-trips")
	for j := 0; j < cl; j++ {
		verifAssert(got.Cert[j] == cert[j], "certificate bytes round-trip")
	}
	// the schema reader reads the encoding identically
	r := c08Reference(enc)
	verifAssert(r.st == c08OK && !r.strictReject, "the encoding is a well-formed message of the documented schema")
	verifAssert(r.init == p.InitiatorIndex && r.resp == p.ResponderIndex && r.time == p.Time && r.cv == p.CertVersion, "the schema reader sees the same scalar fields")
	if cl > 0 {
		verifAssert(r.certHi-r.certLo == cl, "the schema reader sees the same certificate length")
		for j := 0; j < cl; j++ {
			verifAssert(enc[r.certLo+j] == cert[j], "the schema reader sees the same certificate bytes")
		}
	} else {
		verifAssert(r.certLo < 0, "an empty certificate is not encoded")
	}
	verifObserve("enclen", uint64(len(enc)))
	verifObserve("time", got.Time)
}

// VerifC08Decode: arbitrary bytes of every length 0..maxIn.
func VerifC08Decode() {
	maxIn := verifCase("maxlen")
	n := verifInt("len", 0, maxIn)
	in := verifBytes("in", maxIn)[:n]
	c08CheckDecode(in)
}

// VerifC08DecodeRepeated: the embedded Details message occurring twice (proto3: occurrences merge field by field);
// each occurrence holds l1 / l2 arbitrary bytes.
func VerifC08DecodeRepeated() {
	l1, l2 := verifCase("l1"), verifCase("l2")
	d1, d2 := verifBytes("d1", l1), verifBytes("d2", l2)
	in := append([]byte{0x0a, byte(l1)}, d1...)
	in = append(in, 0x0a, byte(l2))
	in = append(in, d2...)
	c08CheckDecode(in)
}

func c08CheckDecode(in []byte) {
	got, err := UnmarshalPayload(in) // panics are implicit obligations
	r := c08Reference(in)
	if r.st == c08Skip {
		return // groups: not expressible in the proto3 schema, no oracle
	}
	if r.st == c08Bad {
		verifAssert(err != nil, "malformed wire data is rejected")
		verifObserve("verdict", 2)
		return
	}
	if r.strictReject {
		verifAssert(err != nil, "a known field with the wrong wire type or a value out of range is rejected")
		verifObserve("verdict", 1)
		return
	}
	verifObserve("verdict", 0)
	verifAssert(err == nil, "a well-formed message of the schema is accepted")
	verifAssert(got.InitiatorIndex == r.init && got.ResponderIndex == r.resp && got.Time == r.time && got.CertVersion == r.cv, "scalar fields as the schema reader sees them (last occurrence wins, unknown fields skipped)")
	if r.certLo >= 0 {
		verifAssert(len(got.Cert) == r.certHi-r.certLo, "certificate length as the schema reader sees it")
		j := verifInt("j", 0, 24)
		if j < len(got.Cert) {
			verifAssert(got.Cert[j] == in[r.certLo+j], "certificate bytes as the schema reader sees them")
		}
	} else {
		verifAssert(len(got.Cert) == 0, "no certificate field, no certificate")
	}
}

// c08FieldValue replaces protowire.consumeFieldValueD in the decode unit: identical for the four proto3 wire types,
// and an error for groups, whose recursive skipping is
// protowire's business and which the proto3 schema cannot produce (the reference gives those inputs no oracle).
func c08FieldValue(num protowire.Number, typ protowire.Type, b []byte, depth int) (n int) {
	switch typ {
	case protowire.VarintType:
		_, n = protowire.ConsumeVarint(b)
		return n
	case protowire.Fixed32Type:
		_, n = protowire.ConsumeFixed32(b)
		return n
	case protowire.Fixed64Type:
		_, n = protowire.ConsumeFixed64(b)
		return n
	case protowire.BytesType:
		_, n = protowire.ConsumeBytes(b)
		return n
	case protowire.StartGroupType:
		return -1 // the parse ends with an error at a group; the reference gives inputs with groups no oracle
	case protowire.EndGroupType:
		return -3
	default:
		return -2
	}
}
