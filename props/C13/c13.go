package nebula

import (
	"sync"
	"log/slog"
	"net/netip"

	"github.com/slackhq/nebula/header"
	"github.com/slackhq/nebula/noiseutil"
)

// C13 — nonces are never reused and the counter ceiling is enforced.

var c13Log = slog.New(slog.DiscardHandler)

// VerifC13Counter: three reservations from an arbitrary counter value that respects the representation invariant
// (counter <= ceiling: NextMessageCounter pins it there).
func VerifC13Counter() {
	cs := &ConnectionState{}
	c0 := verifU64("start")
	verifAssume(c0 <= RejectAfterMessages)
	cs.messageCounter.Store(c0)
	a, okA := cs.NextMessageCounter()
	b, okB := cs.NextMessageCounter()
	c, okC := cs.NextMessageCounter()
	verifAssert(okA == (c0+1 < RejectAfterMessages), "a reservation succeeds exactly below the exhaustion ceiling")
	if okA {
		verifAssert(a == c0+1 && a > c0, "a reserved counter is above everything consumed before")
	}
	if okA && okB {
		verifAssert(b > a, "successive reservations are strictly increasing (never equal)")
	}
	if okB && okC {
		verifAssert(c > b, "successive reservations are strictly increasing (never equal)")
	}
	verifAssert(!okB || okA, "once exhausted, always exhausted")
	verifAssert(!okC || okB, "once exhausted, always exhausted")
	verifAssert(cs.messageCounter.Load() <= RejectAfterMessages, "the counter never passes the ceiling (no wrap to small values)")
	verifObserve("a", a)
}

// VerifC13SendVia: the relay send path seals with exactly the counter it reserved, and never at or above the ceiling.
func VerifC13SendVia() {
	vc := &vCipher{encFail: []bool{verifBool("enc_fails")}}
	via := &HostInfo{localIndexId: 5, vpnAddrs: []netip.Addr{netip.AddrFrom4([4]byte{10, 0, 0, 2})}, ConnectionState: &ConnectionState{eKey: vc}}
	c0 := verifU64("start")
	verifAssume(c0 <= RejectAfterMessages)
	via.ConnectionState.messageCounter.Store(c0)
	f := &Interface{l: c13Log, connectionManager: &connectionManager{relayUsed: map[uint32]struct{}{}, relayUsedLock: &sync.RWMutex{}}, messageMetrics: &MessageMetrics{}}
	relay := &Relay{RemoteIndex: verifU32("relay_remote_index"), LocalIndex: 9}
	adLen := verifInt("adlen", 0, 24)
	ad := verifBytes("ad", 24)[:adLen]
	out := make([]byte, 0, 64)
	res, err := f.prepareSendVia(via, relay, ad, make([]byte, 12), out, false)
	if c0+1 >= RejectAfterMessages {
		verifAssert(err != nil && len(vc.encN) == 0, "at the ceiling nothing is sealed")
		return
	}
	if len(vc.encN) > 0 {
		verifAssert(len(vc.encN) == 1 && vc.encN[0] == c0+1, "the cipher is keyed with exactly the reserved counter")
		verifAssert(vc.encN[0] < RejectAfterMessages && vc.encN[0] > c0, "the sealed counter is below the ceiling and above the previous ones")
	}
	if err == nil {
		var h header.H
		verifAssert(h.Parse(res) == nil && h.MessageCounter == c0+1 && h.RemoteIndex == relay.RemoteIndex && h.Type == header.Message && h.Subtype == header.MessageRelay,
			"the relay header carries the reserved counter and the relay's remote index")
		verifAssert(via.out.Load(), "the send is recorded as outbound traffic")
	}
	_ = noiseutil.EncryptLockNeeded
	verifObserve("sealed", uint64(len(vc.encN)))
}

// ---- two concurrent relay senders under the nonce-ordering lock ----
//
// When the cipher checks that nonces only grow (EncryptLockNeeded), a sender must reserve its counter and seal
// inside one writeLock critical section. A second sender is modelled at the only point where it can get in
// between: this unit replaces (*sync.Mutex).Lock by c13Lock, which lets the other sender run its complete send
// (lock, reserve, seal, unlock) just before the lock is granted. Anything the first sender did BEFORE asking for
// the lock (e.g. reserving a counter) is then overtaken.

var c13Other func()

func c13Lock(m *sync.Mutex) {
	if c13Other != nil {
		o := c13Other
		c13Other = nil
		o()
	}
}

func VerifC13Concurrent() {
	old := noiseutil.EncryptLockNeeded
	noiseutil.EncryptLockNeeded = true
	defer func() { noiseutil.EncryptLockNeeded = old }()
	vc := &vCipher{}
	via := &HostInfo{localIndexId: 5, vpnAddrs: []netip.Addr{netip.AddrFrom4([4]byte{10, 0, 0, 2})}, ConnectionState: &ConnectionState{eKey: vc}}
	c0 := verifU64("start")
	verifAssume(c0 < RejectAfterMessages-3)
	via.ConnectionState.messageCounter.Store(c0)
	f := &Interface{l: c13Log, connectionManager: &connectionManager{relayUsed: map[uint32]struct{}{}, relayUsedLock: &sync.RWMutex{}}, messageMetrics: &MessageMetrics{}}
	relay := &Relay{RemoteIndex: 77, LocalIndex: 9}
	if verifBool("other_sender_arrives") {
		c13Other = func() {
			_, _ = f.prepareSendVia(via, relay, make([]byte, 4), make([]byte, 12), make([]byte, 0, 64), false)
		}
	}
	_, err := f.prepareSendVia(via, relay, make([]byte, 4), make([]byte, 12), make([]byte, 0, 64), false)
	c13Other = nil
	verifAssert(err == nil, "below the ceiling both sends succeed")
	for i := 1; i < 3; i++ {
		if i < len(vc.encN) {
			verifAssert(vc.encN[i] > vc.encN[i-1], "with the nonce-ordering lock, counters reach the cipher in strictly increasing order")
		}
	}
	verifObserve("sealed", uint64(len(vc.encN)))
}
