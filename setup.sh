#!/bin/bash
# Build the framework offline from files on disk only.
set -e
cd "$(dirname "$0")"
export GOFLAGS=-mod=mod GOPROXY=off GOSUMDB=off GOTOOLCHAIN=local CGO_ENABLED=0
export PATH=/opt/veriftools/go1.26.8/bin:$PATH
mkdir -p bin build evidence replays
(cd engine && go build -o ../bin/gosmt .)
bin/gosmt selftest
# warm the Go build cache for the native replay builds (test binaries of the harnessed packages)
(cd /repo && go test -vet=off -count=1 -run '^$' . ./header ./iputil ./cert ./handshake ./firewall ./routing ./udp ./overlay/... ./cpupick ./config >/dev/null 2>&1 || true)
echo setup ok
