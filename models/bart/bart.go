// Contract model of github.com/gaissmai/bart used by the verification harnesses (DESIGN §2.6).
//
// The real package is a 15 kLoC popcount-compressed multibit trie. Nebula uses it as an environment
// library with this documented contract: a set of (masked, valid) prefixes with values; Get is an exact
// match, Lookup/Contains are longest-prefix matches on an address, Supernets enumerates the covering
// prefixes from the most specific to the least specific. The model keeps a linear list and decides
// containment with net/netip. It is trusted (listed in every evidence file that uses it) and is
// differentially tested against the real package at setup time.
package bart

import (
	"iter"
	"net/netip"
)

type entry[V any] struct {
	pfx netip.Prefix
	val V
}

// Table is an IPv4/IPv6 routing table with payload V. The zero value is ready to use.
type Table[V any] struct {
	items []entry[V]
}

// Insert adds or replaces a prefix. Invalid prefixes are ignored; the prefix is stored in masked form.
func (t *Table[V]) Insert(pfx netip.Prefix, val V) {
	if !pfx.IsValid() {
		return
	}
	pfx = pfx.Masked()
	for i := range t.items {
		if t.items[i].pfx == pfx {
			t.items[i].val = val
			return
		}
	}
	t.items = append(t.items, entry[V]{pfx, val})
}

// Get returns the value of exactly this prefix.
func (t *Table[V]) Get(pfx netip.Prefix) (val V, ok bool) {
	if !pfx.IsValid() {
		return val, false
	}
	pfx = pfx.Masked()
	for i := range t.items {
		if t.items[i].pfx == pfx {
			return t.items[i].val, true
		}
	}
	return val, false
}

// Lookup returns the value of the longest prefix containing ip.
func (t *Table[V]) Lookup(ip netip.Addr) (val V, ok bool) {
	best := -1
	for i := range t.items {
		if t.items[i].pfx.Contains(ip) && t.items[i].pfx.Bits() > best {
			best = t.items[i].pfx.Bits()
			val = t.items[i].val
			ok = true
		}
	}
	return val, ok
}

// Contains reports whether any prefix contains ip.
func (t *Table[V]) Contains(ip netip.Addr) bool {
	for i := range t.items {
		if t.items[i].pfx.Contains(ip) {
			return true
		}
	}
	return false
}

// LookupPrefix returns the value of the longest stored prefix covering pfx.
func (t *Table[V]) LookupPrefix(pfx netip.Prefix) (val V, ok bool) {
	if !pfx.IsValid() {
		return val, false
	}
	pfx = pfx.Masked()
	best := -1
	for i := range t.items {
		p := t.items[i].pfx
		if p.Bits() <= pfx.Bits() && p.Contains(pfx.Addr()) && p.Bits() > best {
			best = p.Bits()
			val = t.items[i].val
			ok = true
		}
	}
	return val, ok
}

// Supernets yields every stored prefix that covers pfx, most specific first.
func (t *Table[V]) Supernets(pfx netip.Prefix) iter.Seq2[netip.Prefix, V] {
	return func(yield func(netip.Prefix, V) bool) {
		if !pfx.IsValid() {
			return
		}
		pfx = pfx.Masked()
		last := pfx.Bits() + 1 // covering prefixes have distinct lengths: walk them in decreasing length
		for range t.items {
			best, bi := -1, -1
			for i := range t.items {
				p := t.items[i].pfx
				if p.Bits() < last && p.Bits() > best && p.Contains(pfx.Addr()) {
					best, bi = p.Bits(), i
				}
			}
			if bi < 0 {
				return
			}
			last = best
			if !yield(t.items[bi].pfx, t.items[bi].val) {
				return
			}
		}
	}
}

// All yields every prefix (unspecified order).
func (t *Table[V]) All() iter.Seq2[netip.Prefix, V] {
	return func(yield func(netip.Prefix, V) bool) {
		for i := range t.items {
			if !yield(t.items[i].pfx, t.items[i].val) {
				return
			}
		}
	}
}

// Size is the number of stored prefixes.
func (t *Table[V]) Size() int { return len(t.items) }

// Delete removes a prefix.
func (t *Table[V]) Delete(pfx netip.Prefix) {
	if !pfx.IsValid() {
		return
	}
	pfx = pfx.Masked()
	for i := range t.items {
		if t.items[i].pfx == pfx {
			t.items = append(t.items[:i:i], t.items[i+1:]...)
			return
		}
	}
}

// Lite is a prefix set without payload.
type Lite struct {
	t Table[struct{}]
}

func (l *Lite) Insert(pfx netip.Prefix)            { l.t.Insert(pfx, struct{}{}) }
func (l *Lite) Contains(ip netip.Addr) bool        { return l.t.Contains(ip) }
func (l *Lite) Get(pfx netip.Prefix) bool          { _, ok := l.t.Get(pfx); return ok }
func (l *Lite) Delete(pfx netip.Prefix)            { l.t.Delete(pfx) }
func (l *Lite) Size() int                          { return l.t.Size() }
func (l *Lite) LookupPrefix(pfx netip.Prefix) bool { _, ok := l.t.LookupPrefix(pfx); return ok }

// Clone returns an independent copy.
func (t *Table[V]) Clone() *Table[V] {
	if t == nil {
		return nil
	}
	c := &Table[V]{items: make([]entry[V], len(t.items))}
	copy(c.items, t.items)
	return c
}
