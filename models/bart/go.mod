module github.com/gaissmai/bart

go 1.23
