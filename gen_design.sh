#!/bin/bash
# Recomposes DESIGN.md = design/partA_head.md + generated A.4 + design/partA_tail.md + design/partB.md
cd "$(dirname "$0")"; mkdir -p build
python3 gen_design_tables.py >/dev/null
{ cat design/partA_head.md
  printf '## A.4 Per-property units, bounds, stubs, findings and seeds (generated from `props/*/spec.json`, `known_findings.json`, `seeded/*/meta.json` by `gen_design_tables.py`)\n\n'
  cat build/asbuilt_props.md design/partA_tail.md design/partB.md; } > DESIGN.md
wc -l DESIGN.md
